package godi

import (
	"context"
	"errors"
	"sync"
	"sync/atomic"
	"testing"
	"time"

	"github.com/stretchr/testify/assert"
	"github.com/stretchr/testify/require"
)

// blockingCloser blocks in Close until released and counts its Close calls.
type blockingCloser struct {
	entered chan struct{}
	release chan struct{}
	closes  atomic.Int32
}

func newBlockingCloser() *blockingCloser {
	return &blockingCloser{entered: make(chan struct{}), release: make(chan struct{})}
}

func (b *blockingCloser) Close() error {
	if b.closes.Add(1) == 1 {
		close(b.entered)
	}
	<-b.release
	return nil
}

type panickingCloser struct{}

func (*panickingCloser) Close() error { panic("close failed badly") }

func TestShutdown(t *testing.T) {
	t.Parallel()

	t.Run("closes_everything_in_order", func(t *testing.T) {
		t.Parallel()
		var mu sync.Mutex
		var order []string
		c := NewCollection()
		require.NoError(t, c.AddSingleton(NewTDisposableWithName("singleton")))
		require.NoError(t, c.AddScoped(func(dep *TDisposable) *orderedCloser {
			return &orderedCloser{name: "scoped", mu: &mu, order: &order, dep: dep}
		}))
		p, err := c.Build()
		require.NoError(t, err)
		singleton := RequireResolve[*TDisposable](t, p)
		s, err := p.CreateScope(context.Background())
		require.NoError(t, err)
		child, err := s.CreateScope(context.Background())
		require.NoError(t, err)
		scoped := RequireResolveFrom[*orderedCloser](t, s)
		childScoped := RequireResolveFrom[*orderedCloser](t, child)

		ctx, cancel := context.WithTimeout(context.Background(), 5*time.Second)
		defer cancel()
		require.NoError(t, Shutdown(ctx, p))

		assert.True(t, singleton.IsClosed())
		assert.EqualValues(t, 1, scoped.closes.Load())
		assert.EqualValues(t, 1, childScoped.closes.Load())
		// Scoped instances were closed while the singleton they use was still open
		assert.False(t, scoped.depClosedAtClose)
		assert.False(t, childScoped.depClosedAtClose)

		_, err = Resolve[*TDisposable](p)
		assert.ErrorIs(t, err, ErrProviderDisposed)
		_, err = p.CreateScope(context.Background())
		assert.ErrorIs(t, err, ErrProviderDisposed)
		_, err = Resolve[*orderedCloser](s)
		assert.ErrorIs(t, err, ErrScopeDisposed)
		_, err = child.CreateScope(context.Background())
		assert.ErrorIs(t, err, ErrScopeDisposed)
		assert.Error(t, s.Context().Err())

		// Again, in any form: nil, and nothing is closed twice
		assert.NoError(t, Shutdown(context.Background(), p))
		assert.NoError(t, Shutdown(nil, p)) //nolint:staticcheck // nil context is accepted
		assert.NoError(t, p.Close())
		assert.NoError(t, s.Close())
		assert.EqualValues(t, 1, scoped.closes.Load())
		assert.EqualValues(t, 1, childScoped.closes.Load())
	})

	t.Run("reports_disposal_errors", func(t *testing.T) {
		t.Parallel()
		boom := errors.New("boom")
		c := NewCollection()
		require.NoError(t, c.AddSingleton(NewTDisposableWithName("bad")))
		require.NoError(t, c.AddSingleton(NewTDisposableWithName("good"), Name("good")))
		p, err := c.Build()
		require.NoError(t, err)
		bad := RequireResolve[*TDisposable](t, p)
		good := RequireResolveKeyed[*TDisposable](t, p, "good")
		bad.SetCloseError(boom)

		err = Shutdown(context.Background(), p)
		var disposalErr *DisposalError
		require.ErrorAs(t, err, &disposalErr)
		assert.Contains(t, err.Error(), "boom")
		assert.True(t, bad.IsClosed())
		assert.True(t, good.IsClosed())

		assert.NoError(t, Shutdown(context.Background(), p))
	})

	t.Run("deadline_exceeded_then_completes_in_background", func(t *testing.T) {
		t.Parallel()
		blocker := newBlockingCloser()
		c := NewCollection()
		require.NoError(t, c.AddSingleton(NewTDisposableWithName("first")))
		require.NoError(t, c.AddSingleton(func(*TDisposable) *blockingCloser { return blocker }))
		p, err := c.Build()
		require.NoError(t, err)
		first := RequireResolve[*TDisposable](t, p)
		s, err := p.CreateScope(context.Background())
		require.NoError(t, err)

		ctx, cancel := context.WithTimeout(context.Background(), 30*time.Millisecond)
		defer cancel()
		err = Shutdown(ctx, p)
		require.ErrorIs(t, err, context.DeadlineExceeded)
		var disposalErr *DisposalError
		assert.False(t, errors.As(err, &disposalErr))

		// Disposal has begun and is stuck in the blocking Close: the provider
		// and its scopes are already unusable, later singletons still open
		<-blocker.entered
		_, err = Resolve[*TDisposable](p)
		assert.ErrorIs(t, err, ErrProviderDisposed)
		_, err = Resolve[*TDisposable](s)
		assert.ErrorIs(t, err, ErrScopeDisposed)
		assert.False(t, first.IsClosed())

		// A second Shutdown waits for the disposal that is in progress
		done := make(chan error, 1)
		go func() { done <- Shutdown(context.Background(), p) }()
		select {
		case err := <-done:
			t.Fatalf("Shutdown returned %v while disposal was still in progress", err)
		case <-time.After(50 * time.Millisecond):
		}

		// ... unless its own context ends first
		ctx2, cancel2 := context.WithCancel(context.Background())
		cancel2()
		assert.ErrorIs(t, Shutdown(ctx2, p), context.Canceled)

		close(blocker.release)
		require.NoError(t, <-done)
		assert.True(t, first.IsClosed())
		assert.EqualValues(t, 1, blocker.closes.Load())
		assert.NoError(t, p.Close())
		assert.EqualValues(t, 1, blocker.closes.Load())
	})

	t.Run("waits_for_a_concurrent_close", func(t *testing.T) {
		t.Parallel()
		blocker := newBlockingCloser()
		c := NewCollection()
		require.NoError(t, c.AddScoped(func() *blockingCloser { return blocker }))
		require.NoError(t, c.AddScoped(NewTDisposable))
		p, err := c.Build()
		require.NoError(t, err)
		defer p.Close()
		s, err := p.CreateScope(context.Background())
		require.NoError(t, err)
		d := RequireResolveFrom[*TDisposable](t, s)
		_ = RequireResolveFrom[*blockingCloser](t, s)

		closed := make(chan error, 1)
		go func() { closed <- s.Close() }()
		<-blocker.entered

		// Plain Close returns at once, Shutdown only when the scope is disposed
		assert.NoError(t, s.Close())
		done := make(chan error, 1)
		go func() { done <- Shutdown(context.Background(), s) }()
		select {
		case err := <-done:
			t.Fatalf("Shutdown returned %v while the scope was still closing", err)
		case <-time.After(50 * time.Millisecond):
		}
		assert.False(t, d.IsClosed())

		close(blocker.release)
		require.NoError(t, <-done)
		assert.True(t, d.IsClosed())
		require.NoError(t, <-closed)
		assert.EqualValues(t, 1, blocker.closes.Load())

		// Only the scope was shut down
		other, err := p.CreateScope(context.Background())
		require.NoError(t, err)
		require.NoError(t, Shutdown(context.Background(), other))
		_, err = Resolve[*TDisposable](other)
		assert.ErrorIs(t, err, ErrScopeDisposed)
		_, err = Resolve[*TDisposable](p)
		assert.NoError(t, err)
	})

	t.Run("expired_context_still_closes", func(t *testing.T) {
		t.Parallel()
		c := NewCollection()
		require.NoError(t, c.AddSingleton(NewTDisposable))
		p, err := c.Build()
		require.NoError(t, err)
		d := RequireResolve[*TDisposable](t, p)

		ctx, cancel := context.WithCancel(context.Background())
		cancel()
		if err := Shutdown(ctx, p); err != nil {
			assert.ErrorIs(t, err, context.Canceled)
		}

		require.NoError(t, Shutdown(context.Background(), p))
		assert.True(t, d.IsClosed())
	})

	t.Run("panicking_close_is_an_error", func(t *testing.T) {
		t.Parallel()
		c := NewCollection()
		require.NoError(t, c.AddSingleton(func() *panickingCloser { return &panickingCloser{} }))
		p, err := c.Build()
		require.NoError(t, err)

		var disposalErr *DisposalError
		require.NotPanics(t, func() { err = Shutdown(context.Background(), p) })
		require.ErrorAs(t, err, &disposalErr)
		assert.Contains(t, err.Error(), "close failed badly")
		assert.NoError(t, Shutdown(context.Background(), p))
	})

	t.Run("failed_build_and_foreign_provider", func(t *testing.T) {
		t.Parallel()
		assert.ErrorIs(t, Shutdown(context.Background(), nil), ErrProviderNil)

		// A provider whose Build failed has closed itself: its channel is closed once
		c := NewCollection()
		require.NoError(t, c.AddSingleton(NewTDisposable))
		require.NoError(t, c.AddSingleton(func(*TDisposable) (*TService, error) { return nil, errors.New("no") }))
		_, err := c.Build()
		require.Error(t, err)

		c = NewCollection()
		require.NoError(t, c.AddScoped(func(*TDisposable) error { return errors.New("no") }))
		require.NoError(t, c.AddScoped(NewTDisposable))
		require.NoError(t, c.AddSingleton(NewTService))
		_, err = c.Build()
		require.Error(t, err)

		s := BuildScope(t, AddScoped(NewTDisposable))
		d := RequireResolveFrom[*TDisposable](t, s)
		require.NoError(t, Shutdown(context.Background(), struct{ Provider }{s}))
		assert.True(t, d.IsClosed())
	})

	t.Run("concurrent", func(t *testing.T) {
		t.Parallel()
		for round := 0; round < 20; round++ {
			c := NewCollection()
			require.NoError(t, c.AddSingleton(NewTDisposable))
			require.NoError(t, c.AddScoped(NewTDisposableWithName("scoped"), Name("scoped")))
			p, err := c.Build()
			require.NoError(t, err)
			singleton := RequireResolve[*TDisposable](t, p)

			var mu sync.Mutex
			var scoped []*TDisposable
			var wg sync.WaitGroup
			for i := 0; i < 6; i++ {
				wg.Add(1)
				go func(i int) {
					defer wg.Done()
					switch i % 3 {
					case 0:
						assert.NoError(t, Shutdown(context.Background(), p))
						assert.True(t, singleton.IsClosed())
					case 1:
						assert.NoError(t, p.Close())
					default:
						s, err := p.CreateScope(context.Background())
						if err != nil {
							assert.ErrorIs(t, err, ErrProviderDisposed)
							return
						}
						d, err := ResolveKeyed[*TDisposable](s, "scoped")
						if err != nil {
							assert.ErrorIs(t, err, ErrScopeDisposed)
							return
						}
						mu.Lock()
						scoped = append(scoped, d)
						mu.Unlock()
					}
				}(i)
			}
			wg.Wait()

			require.NoError(t, Shutdown(context.Background(), p))
			assert.True(t, singleton.IsClosed())
			for _, d := range scoped {
				assert.True(t, d.IsClosed())
			}
		}
	})
}

// orderedCloser records whether its dependency was already closed when it was closed.
type orderedCloser struct {
	name             string
	mu               *sync.Mutex
	order            *[]string
	dep              *TDisposable
	closes           atomic.Int32
	depClosedAtClose bool
}

func (o *orderedCloser) Close() error {
	o.closes.Add(1)
	o.mu.Lock()
	defer o.mu.Unlock()
	*o.order = append(*o.order, o.name)
	o.depClosedAtClose = o.dep.IsClosed()
	return nil
}
