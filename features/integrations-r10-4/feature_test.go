package echo

import (
	"errors"
	"net/http"
	"net/http/httptest"
	"sync"
	"sync/atomic"
	"testing"

	"github.com/junioryono/godi/v4"
	"github.com/labstack/echo/v4"
	"github.com/stretchr/testify/assert"
	"github.com/stretchr/testify/require"
)

const scopeHeader = "X-Scope-Id"

// session is a scoped, disposable service.
type session struct {
	closed *atomic.Int32
}

func (s *session) Close() error {
	s.closed.Add(1)
	return nil
}

type sessionController struct {
	session *session
}

func (sc *sessionController) Show(c echo.Context) error {
	return c.String(http.StatusOK, ScopeID(c))
}

func newHeaderProvider(t *testing.T, closed *atomic.Int32) godi.Provider {
	t.Helper()
	collection := godi.NewCollection()
	require.NoError(t, collection.AddScoped(func() *session { return &session{closed: closed} }))
	require.NoError(t, collection.AddScoped(func(s *session) *sessionController {
		return &sessionController{session: s}
	}))
	provider, err := collection.Build()
	require.NoError(t, err)
	t.Cleanup(func() { _ = provider.Close() })
	return provider
}

func TestWithScopeHeader(t *testing.T) {
	t.Run("header carries the ID of the one scope serving the request", func(t *testing.T) {
		var closed atomic.Int32
		provider := newHeaderProvider(t, &closed)

		var mwID, handlerID string

		e := echo.New()
		e.Use(ScopeMiddleware(provider,
			WithScopeHeader(scopeHeader),
			WithMiddleware(func(scope godi.Scope, c echo.Context) error {
				mwID = scope.ID()
				// Already set when the configured middlewares run.
				assert.Equal(t, scope.ID(), c.Response().Header().Get(scopeHeader))
				return nil
			}),
		))
		e.GET("/", func(c echo.Context) error {
			scope, err := godi.FromContext(c.Request().Context())
			require.NoError(t, err)
			handlerID = scope.ID()
			assert.Equal(t, handlerID, ScopeID(c))

			_, err = godi.Resolve[*session](scope)
			require.NoError(t, err)
			return c.NoContent(http.StatusNoContent)
		})

		rec := httptest.NewRecorder()
		e.ServeHTTP(rec, httptest.NewRequest(http.MethodGet, "/", nil))

		assert.Equal(t, http.StatusNoContent, rec.Code)
		assert.NotEmpty(t, handlerID)
		assert.Equal(t, mwID, handlerID)
		assert.Equal(t, []string{handlerID}, rec.Header().Values(scopeHeader), "set exactly once")
		assert.NotEqual(t, provider.ID(), handlerID, "the request scope, not the root scope")
		assert.Equal(t, int32(1), closed.Load())
	})

	t.Run("disabled by default and by an empty name", func(t *testing.T) {
		for name, opts := range map[string][]Option{
			"default":    nil,
			"empty name": {WithScopeHeader("")},
		} {
			t.Run(name, func(t *testing.T) {
				var closed atomic.Int32
				provider := newHeaderProvider(t, &closed)

				e := echo.New()
				e.Use(ScopeMiddleware(provider, opts...))
				e.GET("/", Handle((*sessionController).Show))

				rec := httptest.NewRecorder()
				e.ServeHTTP(rec, httptest.NewRequest(http.MethodGet, "/", nil))

				assert.Equal(t, http.StatusOK, rec.Code)
				assert.NotEmpty(t, rec.Body.String(), "ScopeID works without the header")
				assert.Empty(t, rec.Header().Values(scopeHeader))
				for k := range rec.Header() {
					assert.NotEmpty(t, k, "no header with an empty name")
				}
				assert.Equal(t, int32(1), closed.Load())
			})
		}
	})

	t.Run("error responses carry the header, failed scope creation does not", func(t *testing.T) {
		var closed atomic.Int32
		provider := newHeaderProvider(t, &closed)
		boom := errors.New("boom")

		// Middleware error: error handler runs, handler does not.
		var handlerRan atomic.Bool
		var failedID string
		e := echo.New()
		e.Use(ScopeMiddleware(provider,
			WithScopeHeader(scopeHeader),
			WithMiddleware(func(scope godi.Scope, c echo.Context) error {
				failedID = scope.ID()
				_, err := godi.Resolve[*session](scope)
				require.NoError(t, err)
				return boom
			}),
		))
		e.GET("/", func(c echo.Context) error { handlerRan.Store(true); return nil })

		rec := httptest.NewRecorder()
		e.ServeHTTP(rec, httptest.NewRequest(http.MethodGet, "/", nil))
		assert.Equal(t, http.StatusInternalServerError, rec.Code)
		assert.False(t, handlerRan.Load())
		assert.Equal(t, failedID, rec.Header().Get(scopeHeader))
		assert.Equal(t, int32(1), closed.Load())

		// Handler error.
		e = echo.New()
		e.Use(ScopeMiddleware(provider, WithScopeHeader(scopeHeader)))
		e.GET("/", func(c echo.Context) error { return echo.NewHTTPError(http.StatusConflict, "conflict") })
		rec = httptest.NewRecorder()
		e.ServeHTTP(rec, httptest.NewRequest(http.MethodGet, "/", nil))
		assert.Equal(t, http.StatusConflict, rec.Code)
		assert.NotEmpty(t, rec.Header().Get(scopeHeader))

		// Scope creation fails: error handler only, no header.
		require.NoError(t, provider.Close())
		var errorsHandled atomic.Int32
		e = echo.New()
		e.Use(ScopeMiddleware(provider,
			WithScopeHeader(scopeHeader),
			WithErrorHandler(func(c echo.Context, err error) error {
				errorsHandled.Add(1)
				assert.ErrorIs(t, err, godi.ErrProviderDisposed)
				assert.Empty(t, ScopeID(c))
				return c.NoContent(http.StatusServiceUnavailable)
			}),
		))
		e.GET("/", func(c echo.Context) error { handlerRan.Store(true); return nil })
		rec = httptest.NewRecorder()
		e.ServeHTTP(rec, httptest.NewRequest(http.MethodGet, "/", nil))
		assert.Equal(t, http.StatusServiceUnavailable, rec.Code)
		assert.Equal(t, int32(1), errorsHandled.Load())
		assert.False(t, handlerRan.Load())
		assert.Empty(t, rec.Header().Values(scopeHeader))
	})

	t.Run("concurrent requests report distinct scope IDs", func(t *testing.T) {
		var closed atomic.Int32
		provider := newHeaderProvider(t, &closed)

		e := echo.New()
		e.Use(ScopeMiddleware(provider, WithScopeHeader(scopeHeader)))
		e.GET("/", Handle((*sessionController).Show))

		const n = 40
		var mu sync.Mutex
		ids := map[string]struct{}{}

		var wg sync.WaitGroup
		for i := 0; i < n; i++ {
			wg.Add(1)
			go func() {
				defer wg.Done()
				rec := httptest.NewRecorder()
				e.ServeHTTP(rec, httptest.NewRequest(http.MethodGet, "/", nil))

				id := rec.Header().Get(scopeHeader)
				assert.NotEmpty(t, id)
				assert.Equal(t, id, rec.Body.String(), "header and handler see the same scope")

				mu.Lock()
				ids[id] = struct{}{}
				mu.Unlock()
			}()
		}
		wg.Wait()

		assert.Len(t, ids, n)
		assert.Equal(t, int32(n), closed.Load())
	})
}

func TestScopeID(t *testing.T) {
	assert.Empty(t, ScopeID(nil))

	e := echo.New()
	c := e.NewContext(httptest.NewRequest(http.MethodGet, "/", nil), httptest.NewRecorder())
	assert.Empty(t, ScopeID(c), "request that did not pass the middleware")

	c = e.NewContext(nil, httptest.NewRecorder())
	assert.Empty(t, ScopeID(c), "context without a request")
}
