package godi

import (
	"context"
	"errors"
	"sync"
	"sync/atomic"
	"testing"
	"time"

	"github.com/stretchr/testify/assert"
	"github.com/stretchr/testify/require"
)

type slSession struct{ closed *atomic.Int32 }

func (s *slSession) Close() error { s.closed.Add(1); return nil }

type slCounters struct {
	inits   atomic.Int32 // runs of the scoped initialization function
	created atomic.Int32 // sessions constructed
	closed  atomic.Int32 // sessions closed
}

func slCollection(t *testing.T, counters *slCounters) Collection {
	t.Helper()
	c := NewCollection()
	require.NoError(t, c.AddScoped(func() { counters.inits.Add(1) }))
	require.NoError(t, c.AddScoped(func() *slSession {
		counters.created.Add(1)
		return &slSession{closed: &counters.closed}
	}))
	return c
}

func requireLimitError(t *testing.T, err error, limit int) {
	t.Helper()
	require.Error(t, err)
	assert.ErrorIs(t, err, ErrScopeLimitReached)
	var limitErr *ScopeLimitError
	require.ErrorAs(t, err, &limitErr)
	assert.Equal(t, limit, limitErr.Limit)
	assert.NotErrorIs(t, err, ErrScopeDisposed)
	assert.NotErrorIs(t, err, ErrProviderDisposed)
}

func TestMaxScopes_CountsNestedScopesAndFreesOnClose(t *testing.T) {
	counters := &slCounters{}
	p, err := slCollection(t, counters).BuildWithOptions(&ProviderOptions{MaxScopes: 3})
	require.NoError(t, err)
	defer p.Close()
	require.Equal(t, int32(1), counters.inits.Load(), "root scope")

	// The root scope does not count and keeps working
	_, err = Resolve[*slSession](p)
	require.NoError(t, err)

	a, err := p.CreateScope(context.Background())
	require.NoError(t, err)
	a1, err := a.CreateScope(context.Background())
	require.NoError(t, err)
	b, err := p.CreateScope(context.Background())
	require.NoError(t, err)
	require.Equal(t, int32(4), counters.inits.Load())

	// Full: neither the provider nor a scope can open another one
	_, err = p.CreateScope(context.Background())
	requireLimitError(t, err, 3)
	_, err = a1.CreateScope(context.Background())
	requireLimitError(t, err, 3)
	_, err = b.CreateScope(nil)
	requireLimitError(t, err, 3)

	// A rejected scope ran no initialization function and left nothing behind
	assert.Equal(t, int32(4), counters.inits.Load())
	root := p.(*provider)
	root.scopesMu.Lock()
	assert.Len(t, root.scopes, 3)
	root.scopesMu.Unlock()
	for _, s := range []Scope{a, a1, b} {
		parent := s.(*scope)
		parent.childrenMu.Lock()
		if s == a {
			assert.Len(t, parent.children, 1)
		} else {
			assert.Empty(t, parent.children)
		}
		parent.childrenMu.Unlock()
	}

	// The open scopes are unaffected by the rejections
	s1, err := Resolve[*slSession](a1)
	require.NoError(t, err)
	s2, err := Resolve[*slSession](a1)
	require.NoError(t, err)
	assert.Same(t, s1, s2)

	// Closing a scope with a child frees two places
	require.NoError(t, a.Close())
	assert.Equal(t, int32(1), counters.closed.Load())
	c, err := p.CreateScope(context.Background())
	require.NoError(t, err)
	c1, err := c.CreateScope(context.Background())
	require.NoError(t, err)
	_, err = c1.CreateScope(context.Background())
	requireLimitError(t, err, 3)

	require.NoError(t, b.Close())
	require.NoError(t, c.Close())
	_, err = c1.CreateScope(context.Background())
	assert.ErrorIs(t, err, ErrScopeDisposed, "disposed wins over the limit")
}

func TestMaxScopes_ContextCancellationFreesAPlace(t *testing.T) {
	counters := &slCounters{}
	p, err := slCollection(t, counters).BuildWithOptions(&ProviderOptions{MaxScopes: 1})
	require.NoError(t, err)
	defer p.Close()

	ctx, cancel := context.WithCancel(context.Background())
	s, err := p.CreateScope(ctx)
	require.NoError(t, err)
	_, err = Resolve[*slSession](s)
	require.NoError(t, err)

	_, err = p.CreateScope(context.Background())
	requireLimitError(t, err, 1)

	cancel()
	var next Scope
	require.Eventually(t, func() bool {
		next, err = p.CreateScope(context.Background())
		return err == nil
	}, time.Second, time.Millisecond)
	defer next.Close()
	assert.Equal(t, int32(1), counters.closed.Load())
}

func TestMaxScopes_DefaultIsUnlimitedAndLimitIsPerProvider(t *testing.T) {
	counters := &slCounters{}
	c := slCollection(t, counters)

	limited, err := c.BuildWithOptions(&ProviderOptions{MaxScopes: 1})
	require.NoError(t, err)
	defer limited.Close()

	for name, build := range map[string]func() (Provider, error){
		"Build":            c.Build,
		"BuildWithContext": func() (Provider, error) { return c.BuildWithContext(context.Background()) },
		"nil options":      func() (Provider, error) { return c.BuildWithOptions(nil) },
		"zero":             func() (Provider, error) { return c.BuildWithOptions(&ProviderOptions{}) },
		"negative":         func() (Provider, error) { return c.BuildWithOptions(&ProviderOptions{MaxScopes: -5}) },
	} {
		t.Run(name, func(t *testing.T) {
			p, err := build()
			require.NoError(t, err)
			defer p.Close()

			parent, err := p.CreateScope(context.Background())
			require.NoError(t, err)
			for i := 0; i < 50; i++ {
				_, err := parent.CreateScope(context.Background())
				require.NoError(t, err)
			}
		})
	}

	// Scopes of the other providers did not use up this provider's place
	s, err := limited.CreateScope(context.Background())
	require.NoError(t, err)
	_, err = limited.CreateScope(context.Background())
	requireLimitError(t, err, 1)
	require.NoError(t, s.Close())
}

func TestMaxScopes_ClosedProvider(t *testing.T) {
	counters := &slCounters{}
	p, err := slCollection(t, counters).BuildWithOptions(&ProviderOptions{MaxScopes: 1})
	require.NoError(t, err)

	s, err := p.CreateScope(context.Background())
	require.NoError(t, err)
	_, err = Resolve[*slSession](s)
	require.NoError(t, err)

	require.NoError(t, p.Close())
	_, err = p.CreateScope(context.Background())
	assert.ErrorIs(t, err, ErrProviderDisposed)
	assert.False(t, errors.Is(err, ErrScopeLimitReached))
	_, err = s.CreateScope(context.Background())
	assert.ErrorIs(t, err, ErrScopeDisposed)
	assert.Equal(t, counters.created.Load(), counters.closed.Load())
}

func TestMaxScopes_ConcurrentCreationNeverExceedsLimit(t *testing.T) {
	const limit = 4
	counters := &slCounters{}
	p, err := slCollection(t, counters).BuildWithOptions(&ProviderOptions{MaxScopes: limit})
	require.NoError(t, err)
	root := p.(*provider)

	var open, peak, succeeded, rejected atomic.Int32
	var wg sync.WaitGroup
	for i := 0; i < 16; i++ {
		wg.Add(1)
		go func(i int) {
			defer wg.Done()
			for j := 0; j < 100; j++ {
				s, err := p.CreateScope(context.Background())
				if err != nil {
					if assert.ErrorIs(t, err, ErrScopeLimitReached) {
						rejected.Add(1)
					}
					continue
				}
				succeeded.Add(1)

				now := open.Add(1)
				for {
					old := peak.Load()
					if now <= old || peak.CompareAndSwap(old, now) {
						break
					}
				}

				root.scopesMu.Lock()
				tracked := len(root.scopes)
				root.scopesMu.Unlock()
				assert.LessOrEqual(t, tracked, limit)

				// Sometimes nest: the child competes for the same places
				if i%2 == 0 {
					child, err := s.CreateScope(context.Background())
					if err == nil {
						_, err = Resolve[*slSession](child)
						assert.NoError(t, err)
					} else {
						assert.ErrorIs(t, err, ErrScopeLimitReached)
					}
				}

				_, err = Resolve[*slSession](s)
				assert.NoError(t, err)

				open.Add(-1)
				assert.NoError(t, s.Close())
			}
		}(i)
	}
	wg.Wait()

	assert.LessOrEqual(t, peak.Load(), int32(limit))
	assert.Positive(t, succeeded.Load())

	// Nothing is left behind: every place is free again, every instance created
	// (also in scopes rejected at the last moment) has been closed exactly once
	root.scopesMu.Lock()
	assert.Empty(t, root.scopes)
	root.scopesMu.Unlock()
	assert.Equal(t, counters.created.Load(), counters.closed.Load())

	scopes := make([]Scope, 0, limit)
	for i := 0; i < limit; i++ {
		s, err := p.CreateScope(context.Background())
		require.NoError(t, err)
		scopes = append(scopes, s)
	}
	_, err = p.CreateScope(context.Background())
	requireLimitError(t, err, limit)

	require.NoError(t, p.Close())
	for _, s := range scopes {
		_, err := s.CreateScope(context.Background())
		assert.ErrorIs(t, err, ErrScopeDisposed)
	}
}
