package godi

import (
	"context"
	"errors"
	"sync"
	"sync/atomic"
	"testing"

	"github.com/stretchr/testify/assert"
	"github.com/stretchr/testify/require"
)

// foreignProvider hides the concrete type, so that the generic helpers take
// the path for Provider implementations from outside the package.
type foreignProvider struct{ Provider }

func TestTryResolve(t *testing.T) {
	t.Parallel()

	t.Run("registered_lifetimes", func(t *testing.T) {
		t.Parallel()
		s := BuildScope(t,
			AddSingleton(NewTService),
			AddScoped(NewTScoped),
			AddTransient(NewTTransient),
		)

		svc, ok, err := TryResolve[*TService](s)
		require.NoError(t, err)
		require.True(t, ok)
		assert.Same(t, RequireResolveFrom[*TService](t, s), svc)
		assert.Same(t, RequireResolve[*TService](t, s.Provider()), svc)

		scoped, ok, err := TryResolve[*TScoped](s)
		require.NoError(t, err)
		require.True(t, ok)
		assert.Same(t, RequireResolveFrom[*TScoped](t, s), scoped)

		other, err := s.Provider().CreateScope(context.Background())
		require.NoError(t, err)
		defer other.Close()
		otherScoped, ok, err := TryResolve[*TScoped](other)
		require.NoError(t, err)
		require.True(t, ok)
		assert.NotSame(t, scoped, otherScoped)

		t1, ok, err := TryResolve[*TTransient](s)
		require.NoError(t, err)
		require.True(t, ok)
		t2, ok, err := TryResolve[*TTransient](s)
		require.NoError(t, err)
		require.True(t, ok)
		assert.NotSame(t, t1, t2)
	})

	t.Run("not_registered", func(t *testing.T) {
		t.Parallel()
		s := BuildScope(t, AddSingleton(NewTService))

		dep, ok, err := TryResolve[*TDependency](s)
		require.NoError(t, err)
		assert.False(t, ok)
		assert.Nil(t, dep)

		dep, ok, err = TryResolve[*TDependency](s.Provider())
		require.NoError(t, err)
		assert.False(t, ok)
		assert.Nil(t, dep)

		// An interface the service implements is not an identity of its own
		_, ok, err = TryResolve[TInterface](s)
		require.NoError(t, err)
		assert.False(t, ok)
	})

	t.Run("keyed_and_groups", func(t *testing.T) {
		t.Parallel()
		s := BuildScope(t,
			AddSingleton(NewTServiceWithID("plain")),
			AddSingleton(NewTServiceWithID("named"), Name("named")),
			AddSingleton(NewTDependencyWithName("member"), Group("deps")),
		)

		named, ok, err := TryResolveKeyed[*TService](s, "named")
		require.NoError(t, err)
		require.True(t, ok)
		assert.Equal(t, "named", named.ID)
		assert.Same(t, RequireResolveKeyed[*TService](t, s, "named"), named)

		plain, ok, err := TryResolve[*TService](s)
		require.NoError(t, err)
		require.True(t, ok)
		assert.Equal(t, "plain", plain.ID)

		_, ok, err = TryResolveKeyed[*TService](s, "other")
		require.NoError(t, err)
		assert.False(t, ok)

		_, ok, err = TryResolveKeyed[*TService](s, nil)
		assert.ErrorIs(t, err, ErrServiceKeyNil)
		assert.False(t, ok)

		// A group member is resolvable through its group only
		_, ok, err = TryResolve[*TDependency](s)
		require.NoError(t, err)
		assert.False(t, ok)
		_, ok, err = TryResolveKeyed[*TDependency](s, 1)
		require.NoError(t, err)
		assert.False(t, ok)
	})

	t.Run("builtins", func(t *testing.T) {
		t.Parallel()
		s := BuildScope(t)

		sc, ok, err := TryResolve[Scope](s)
		require.NoError(t, err)
		require.True(t, ok)
		assert.Same(t, s, sc)

		ctx, ok, err := TryResolve[context.Context](s)
		require.NoError(t, err)
		require.True(t, ok)
		assert.Equal(t, s.Context(), ctx)

		p, ok, err := TryResolve[Provider](s)
		require.NoError(t, err)
		require.True(t, ok)
		assert.Same(t, s.Provider(), p)

		_, ok, err = TryResolveKeyed[Scope](s, "k")
		require.NoError(t, err)
		assert.False(t, ok)
	})

	t.Run("disposed", func(t *testing.T) {
		t.Parallel()
		c := NewCollection()
		require.NoError(t, c.AddScoped(NewTScoped))
		p, err := c.Build()
		require.NoError(t, err)
		s, err := p.CreateScope(context.Background())
		require.NoError(t, err)
		child, err := s.CreateScope(context.Background())
		require.NoError(t, err)

		require.NoError(t, s.Close())

		// Registered or not, a closed scope reports that it is closed
		_, ok, err := TryResolve[*TScoped](s)
		assert.ErrorIs(t, err, ErrScopeDisposed)
		assert.False(t, ok)
		_, ok, err = TryResolve[*TDependency](s)
		assert.ErrorIs(t, err, ErrScopeDisposed)
		assert.False(t, ok)
		_, ok, err = TryResolveKeyed[*TDependency](child, "k")
		assert.ErrorIs(t, err, ErrScopeDisposed)
		assert.False(t, ok)

		require.NoError(t, p.Close())
		_, ok, err = TryResolve[*TDependency](p)
		assert.ErrorIs(t, err, ErrProviderDisposed)
		assert.False(t, ok)
		_, ok, err = TryResolve[*TScoped](p)
		assert.ErrorIs(t, err, ErrProviderDisposed)
		assert.False(t, ok)

		_, ok, err = TryResolve[*TScoped](nil)
		assert.ErrorIs(t, err, ErrProviderNil)
		assert.False(t, ok)
	})

	t.Run("failing_constructor_is_an_error_and_not_cached", func(t *testing.T) {
		t.Parallel()
		boom := errors.New("boom")
		var calls atomic.Int32
		s := BuildScope(t, AddScoped(func() (*TService, error) {
			if calls.Add(1) == 1 {
				return nil, boom
			}
			return &TService{ID: "second"}, nil
		}))

		_, ok, err := TryResolve[*TService](s)
		require.ErrorIs(t, err, boom)
		assert.False(t, ok)

		svc, ok, err := TryResolve[*TService](s)
		require.NoError(t, err)
		require.True(t, ok)
		assert.Equal(t, "second", svc.ID)
		assert.Same(t, svc, RequireResolveFrom[*TService](t, s))
		assert.EqualValues(t, 2, calls.Load())
	})

	t.Run("panicking_constructor", func(t *testing.T) {
		t.Parallel()
		s := BuildScope(t, AddTransient(func() *TService { panic("bad") }))

		_, ok, err := TryResolve[*TService](s)
		var panicErr *ConstructorPanicError
		require.ErrorAs(t, err, &panicErr)
		assert.Equal(t, "bad", panicErr.Panic)
		assert.False(t, ok)
	})

	t.Run("foreign_provider", func(t *testing.T) {
		t.Parallel()
		s := BuildScope(t,
			AddScoped(NewTScoped),
			AddSingleton(NewTServiceWithID("named"), Name("named")),
		)
		f := foreignProvider{s}

		scoped, ok, err := TryResolve[*TScoped](f)
		require.NoError(t, err)
		require.True(t, ok)
		assert.Same(t, RequireResolveFrom[*TScoped](t, s), scoped)

		_, ok, err = TryResolve[*TDependency](f)
		require.NoError(t, err)
		assert.False(t, ok)

		named, ok, err := TryResolveKeyed[*TService](f, "named")
		require.NoError(t, err)
		require.True(t, ok)
		assert.Equal(t, "named", named.ID)

		_, ok, err = TryResolveKeyed[*TService](f, "other")
		require.NoError(t, err)
		assert.False(t, ok)

		require.NoError(t, s.Close())
		_, ok, err = TryResolve[*TDependency](f)
		assert.ErrorIs(t, err, ErrScopeDisposed)
		assert.False(t, ok)
	})

	t.Run("concurrent_with_close", func(t *testing.T) {
		t.Parallel()
		c := NewCollection()
		require.NoError(t, c.AddSingleton(NewTService))
		require.NoError(t, c.AddTransient(NewTDisposable))
		p, err := c.Build()
		require.NoError(t, err)
		defer p.Close()
		s, err := p.CreateScope(context.Background())
		require.NoError(t, err)
		want := RequireResolve[*TService](t, p)

		var mu sync.Mutex
		var handedOut []*TDisposable
		var wg sync.WaitGroup
		for i := 0; i < 8; i++ {
			wg.Add(1)
			go func(i int) {
				defer wg.Done()
				for j := 0; j < 50; j++ {
					if i == 0 && j == 25 {
						assert.NoError(t, s.Close())
					}

					svc, ok, err := TryResolve[*TService](s)
					if err != nil {
						assert.ErrorIs(t, err, ErrScopeDisposed)
					} else {
						assert.True(t, ok)
						assert.Same(t, want, svc)
					}

					d, ok, err := TryResolve[*TDisposable](s)
					if err != nil {
						assert.ErrorIs(t, err, ErrScopeDisposed)
					} else {
						assert.True(t, ok)
						assert.NotNil(t, d)
					}
					if d != nil {
						mu.Lock()
						handedOut = append(handedOut, d)
						mu.Unlock()
					}

					_, ok, err = TryResolve[*TDependency](s)
					if err != nil {
						assert.ErrorIs(t, err, ErrScopeDisposed)
					}
					assert.False(t, ok)
				}
			}(i)
		}
		wg.Wait()

		// Every transient that was handed out is owned, and was closed, by the scope
		require.NotEmpty(t, handedOut)
		for _, d := range handedOut {
			assert.True(t, d.IsClosed())
		}
	})
}
