package godi

import (
	"errors"
	"fmt"
	"reflect"
	"sync"
	"sync/atomic"
	"testing"

	"github.com/stretchr/testify/assert"
	"github.com/stretchr/testify/require"
)

// f1Closer counts its Close calls and fails with a configurable error.
type f1Closer struct {
	err    error
	closes atomic.Int32
}

func (c *f1Closer) Close() error {
	c.closes.Add(1)
	return c.err
}

type (
	f1Singleton struct{ f1Closer }
	f1Scoped    struct{ f1Closer }
	f1Transient struct{ f1Closer }
	f1Healthy   struct{ f1Closer }
)

// f1CloseError is a typed error, to check errors.As through the aggregation.
type f1CloseError struct{ Resource string }

func (e *f1CloseError) Error() string { return "cannot release " + e.Resource }

func TestDisposalErrorUnwrap(t *testing.T) {
	t.Parallel()

	errSingleton := errors.New("singleton close failed")
	errScoped := errors.New("scoped close failed")

	t.Run("value_and_pointer_forms", func(t *testing.T) {
		t.Parallel()

		typed := &f1CloseError{Resource: "socket"}
		value := DisposalError{Context: "scope", Errors: []error{errScoped, fmt.Errorf("wrapped: %w", typed)}}

		for _, err := range []error{value, &value, fmt.Errorf("outer: %w", &value)} {
			assert.ErrorIs(t, err, errScoped)
			assert.ErrorIs(t, err, typed)
			assert.NotErrorIs(t, err, errSingleton)

			var target *f1CloseError
			require.ErrorAs(t, err, &target)
			assert.Same(t, typed, target)
		}

		// The message is not affected by the new methods
		assert.Equal(t, "scope disposal failed with 2 errors:\n  1. scoped close failed\n  2. wrapped: cannot release socket", value.Error())
	})

	t.Run("empty_and_nil_entries", func(t *testing.T) {
		t.Parallel()

		assert.NotErrorIs(t, DisposalError{Context: "scope"}, errScoped)
		assert.Empty(t, DisposalError{Context: "scope"}.Flatten())

		withNil := DisposalError{Context: "scope", Errors: []error{nil, errScoped, (*DisposalError)(nil)}}
		assert.ErrorIs(t, withNil, errScoped)
		assert.Equal(t, []error{errScoped, (*DisposalError)(nil)}, withNil.Flatten())
	})

	t.Run("flatten_hand_made_tree", func(t *testing.T) {
		t.Parallel()

		a, b, c, d := errors.New("a"), errors.New("b"), errors.New("c"), errors.New("d")
		joined := errors.Join(c, &DisposalError{Context: "scope", Errors: []error{d}})
		inner := &DisposalError{Context: "scope", Errors: []error{b, joined}}
		wrappedInner := fmt.Errorf("failed to close child scope: %w", fmt.Errorf("again: %w", inner))
		outer := DisposalError{Context: "provider", Errors: []error{a, wrappedInner, DisposalError{Context: "scope", Errors: []error{a}}}}

		// A joined error is one failure: only chains of single wrappers are opened
		assert.Equal(t, []error{a, b, joined, a}, outer.Flatten())
		assert.ErrorIs(t, outer, d)

		// Flatten does not modify the receiver
		assert.Len(t, outer.Errors, 3)
		assert.Len(t, inner.Errors, 2)
	})

	t.Run("provider_close_reaches_every_failure", func(t *testing.T) {
		t.Parallel()

		typed := &f1CloseError{Resource: "transient"}

		c := NewCollection()
		require.NoError(t, c.AddSingleton(func() *f1Singleton { return &f1Singleton{f1Closer{err: errSingleton}} }))
		require.NoError(t, c.AddSingleton(func(*f1Singleton) *f1Healthy { return &f1Healthy{} }))
		require.NoError(t, c.AddScoped(func() *f1Scoped { return &f1Scoped{f1Closer{err: errScoped}} }))
		require.NoError(t, c.AddTransient(func() *f1Transient { return &f1Transient{f1Closer{err: typed}} }))

		p, err := c.Build()
		require.NoError(t, err)

		parent, err := p.CreateScope(nil)
		require.NoError(t, err)
		child, err := parent.CreateScope(nil)
		require.NoError(t, err)
		grandchild, err := child.CreateScope(nil)
		require.NoError(t, err)

		singleton, err := Resolve[*f1Singleton](grandchild)
		require.NoError(t, err)
		healthy, err := Resolve[*f1Healthy](p)
		require.NoError(t, err)
		scopedParent, err := Resolve[*f1Scoped](parent)
		require.NoError(t, err)
		scopedGrandchild, err := Resolve[*f1Scoped](grandchild)
		require.NoError(t, err)
		transient, err := Resolve[*f1Transient](child)
		require.NoError(t, err)

		closeErr := p.Close()
		require.Error(t, closeErr)

		// errors.Is / errors.As reach the failures at every nesting depth
		assert.ErrorIs(t, closeErr, errSingleton)
		assert.ErrorIs(t, closeErr, errScoped)
		var target *f1CloseError
		require.ErrorAs(t, closeErr, &target)
		assert.Same(t, typed, target)
		assert.NotErrorIs(t, closeErr, ErrScopeDisposed)
		assert.NotErrorIs(t, closeErr, ErrProviderDisposed)

		var disposal *DisposalError
		require.ErrorAs(t, closeErr, &disposal)
		assert.Equal(t, "provider", disposal.Context)

		// One leaf per failed Close call, whichever scope the provider closed
		// first; the singleton, closed after every scope, comes last
		leaves := disposal.Flatten()
		require.Len(t, leaves, 4)
		count := func(target error) (n int) {
			for _, leaf := range leaves {
				var nested *DisposalError
				assert.False(t, errors.As(leaf, &nested), "leaf %q still aggregates", leaf)
				if errors.Is(leaf, target) {
					n++
				}
			}
			return n
		}
		assert.Equal(t, 2, count(errScoped))
		assert.Equal(t, 1, count(typed))
		assert.Equal(t, 1, count(errSingleton))
		assert.ErrorIs(t, leaves[3], errSingleton)
		assert.Equal(t, "singleton disposable 0: singleton close failed", leaves[3].Error())

		// Everything was closed exactly once although some Close calls failed
		for _, closer := range []*f1Closer{&singleton.f1Closer, &healthy.f1Closer, &scopedParent.f1Closer, &scopedGrandchild.f1Closer, &transient.f1Closer} {
			assert.Equal(t, int32(1), closer.closes.Load())
		}

		// A second Close reports nothing and closes nothing
		assert.NoError(t, p.Close())
		assert.NoError(t, parent.Close())
		assert.Equal(t, int32(1), scopedParent.closes.Load())

		_, err = parent.Get(reflect.TypeOf((*f1Scoped)(nil)))
		assert.ErrorIs(t, err, ErrScopeDisposed)
		_, err = p.CreateScope(nil)
		assert.ErrorIs(t, err, ErrProviderDisposed)
	})

	t.Run("scope_close_without_failure_is_nil", func(t *testing.T) {
		t.Parallel()

		c := NewCollection()
		require.NoError(t, c.AddScoped(func() *f1Healthy { return &f1Healthy{} }))
		p, err := c.Build()
		require.NoError(t, err)
		t.Cleanup(func() { assert.NoError(t, p.Close()) })

		s, err := p.CreateScope(nil)
		require.NoError(t, err)
		healthy, err := Resolve[*f1Healthy](s)
		require.NoError(t, err)

		assert.NoError(t, s.Close())
		assert.Equal(t, int32(1), healthy.closes.Load())
	})

	t.Run("concurrent_close_reports_each_failure_once", func(t *testing.T) {
		t.Parallel()

		c := NewCollection()
		require.NoError(t, c.AddScoped(func() *f1Scoped { return &f1Scoped{f1Closer{err: errScoped}} }))
		p, err := c.Build()
		require.NoError(t, err)
		t.Cleanup(func() { assert.NoError(t, p.Close()) })

		parent, err := p.CreateScope(nil)
		require.NoError(t, err)
		child, err := parent.CreateScope(nil)
		require.NoError(t, err)
		inParent, err := Resolve[*f1Scoped](parent)
		require.NoError(t, err)
		inChild, err := Resolve[*f1Scoped](child)
		require.NoError(t, err)

		var (
			wg     sync.WaitGroup
			mu     sync.Mutex
			leaves []error
		)
		for _, s := range []Scope{parent, child, parent, child} {
			wg.Add(1)
			go func(s Scope) {
				defer wg.Done()
				err := s.Close()
				if err == nil {
					return
				}

				var disposal *DisposalError
				if assert.ErrorAs(t, err, &disposal) {
					assert.ErrorIs(t, err, errScoped)
					mu.Lock()
					leaves = append(leaves, disposal.Flatten()...)
					mu.Unlock()
				}
			}(s)
		}
		wg.Wait()

		assert.Len(t, leaves, 2)
		assert.Equal(t, int32(1), inParent.closes.Load())
		assert.Equal(t, int32(1), inChild.closes.Load())
	})
}
