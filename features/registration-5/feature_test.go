package godi

import (
	"errors"
	"reflect"
	"sync"
	"sync/atomic"
	"testing"

	"github.com/stretchr/testify/assert"
	"github.com/stretchr/testify/require"
)

type (
	raLogger  struct{}
	raDB      struct{}
	raCache   struct{}
	raSession struct{}
	raPlugin  struct{}
	raA       struct{}
	raB       struct{}
	raSvc1    struct{}
	raSvc2    struct{}
	raSvc3    struct{}
)

type raHostIn struct {
	In
	Plugins []*raPlugin `group:"plugins"`
	Cache   *raCache    `optional:"true"`
}

// raDefects flattens the cause of a build error into its individual defects.
func raDefects(t *testing.T, err error) []error {
	t.Helper()

	var buildErr *BuildError
	require.ErrorAs(t, err, &buildErr)

	if joined, ok := buildErr.Cause.(interface{ Unwrap() []error }); ok {
		return joined.Unwrap()
	}
	return []error{buildErr.Cause}
}

func TestBuildReportAllErrors(t *testing.T) {
	all := &ProviderOptions{ReportAllErrors: true}
	loggerType := reflect.TypeOf((*raLogger)(nil))
	dbType := reflect.TypeOf((*raDB)(nil))
	sessionType := reflect.TypeOf((*raSession)(nil))

	t.Run("collects_every_kind_of_defect_cycle_first", func(t *testing.T) {
		c := NewCollection()
		// cycle
		require.NoError(t, c.AddSingleton(func(*raB) *raA { return &raA{} }))
		require.NoError(t, c.AddSingleton(func(*raA) *raB { return &raB{} }))
		// two lifetime conflicts, one of them through a group
		require.NoError(t, c.AddScoped(func() *raSession { return &raSession{} }))
		require.NoError(t, c.AddScoped(func() *raPlugin { return &raPlugin{} }, Group("plugins")))
		require.NoError(t, c.AddSingleton(func(*raSession) *raSvc1 { return &raSvc1{} }))
		require.NoError(t, c.AddTransient(func(raHostIn) *raSvc2 { return &raSvc2{} }))
		// two distinct missing dependencies, one of them asked for twice
		require.NoError(t, c.AddScoped(func(*raLogger, *raDB) *raSvc3 { return &raSvc3{} }))
		require.NoError(t, c.AddScoped(func(*raLogger) *raCache { return &raCache{} }, Name("c")))

		p, err := c.BuildWithOptions(all)
		require.Error(t, err)
		require.Nil(t, p)

		var buildErr *BuildError
		require.ErrorAs(t, err, &buildErr)
		assert.Equal(t, "validation", buildErr.Phase)
		assert.Equal(t, "dependency graph validation failed", buildErr.Details)

		defects := raDefects(t, err)
		require.Len(t, defects, 5)

		require.IsType(t, &CircularDependencyError{}, defects[0])

		first, ok := defects[1].(*LifetimeConflictError)
		require.True(t, ok)
		assert.Equal(t, reflect.TypeOf((*raSvc1)(nil)), first.ServiceType)
		assert.Equal(t, sessionType, first.DependencyType)
		assert.Equal(t, Singleton, first.ServiceLifetime)

		second, ok := defects[2].(*LifetimeConflictError)
		require.True(t, ok)
		assert.Equal(t, reflect.TypeOf((*raSvc2)(nil)), second.ServiceType)
		assert.Equal(t, reflect.TypeOf((*raPlugin)(nil)), second.DependencyType)
		assert.Equal(t, Transient, second.ServiceLifetime)

		missingLogger, ok := defects[3].(*ResolutionError)
		require.True(t, ok)
		assert.Equal(t, loggerType, missingLogger.ServiceType)
		missingDB, ok := defects[4].(*ResolutionError)
		require.True(t, ok)
		assert.Equal(t, dbType, missingDB.ServiceType)

		// Every kind stays distinguishable on the returned error
		var cycle *CircularDependencyError
		var conflict *LifetimeConflictError
		assert.True(t, errors.As(err, &cycle))
		assert.True(t, errors.As(err, &conflict))
		assert.Same(t, first, conflict, "errors.As finds the first of its kind")
		assert.ErrorIs(t, err, ErrServiceNotFound)

		// Without the option the same set fails with the cycle alone
		_, plain := c.Build()
		require.Error(t, plain)
		require.Len(t, raDefects(t, plain), 1)
		require.IsType(t, &CircularDependencyError{}, raDefects(t, plain)[0])
		assert.False(t, errors.As(plain, &conflict))

		_, noOption := c.BuildWithOptions(&ProviderOptions{})
		require.Len(t, raDefects(t, noOption), 1)
	})

	t.Run("primary_defect_is_the_one_a_plain_build_reports", func(t *testing.T) {
		// No cycle: lifetime conflicts first, then the missing dependency
		c := NewCollection()
		require.NoError(t, c.AddScoped(func() *raSession { return &raSession{} }))
		require.NoError(t, c.AddTransient(func(*raSession, *raDB) *raSvc1 { return &raSvc1{} }))
		require.NoError(t, c.AddSingleton(func(*raSession) *raSvc2 { return &raSvc2{} }))

		_, err := c.BuildWithOptions(all)
		var buildErr *BuildError
		require.ErrorAs(t, err, &buildErr)
		assert.Equal(t, "lifetime validation failed", buildErr.Details)

		defects := raDefects(t, err)
		require.Len(t, defects, 3)
		assert.Equal(t, reflect.TypeOf((*raSvc1)(nil)), defects[0].(*LifetimeConflictError).ServiceType)
		assert.Equal(t, reflect.TypeOf((*raSvc2)(nil)), defects[1].(*LifetimeConflictError).ServiceType)
		assert.Equal(t, dbType, defects[2].(*ResolutionError).ServiceType)

		_, plain := c.Build()
		var plainErr *BuildError
		require.ErrorAs(t, plain, &plainErr)
		assert.Equal(t, buildErr.Phase, plainErr.Phase)
		assert.Equal(t, buildErr.Details, plainErr.Details)
		assert.IsType(t, defects[0], plainErr.Cause)

		// Only missing dependencies: keyed and unkeyed are different defects
		m := NewCollection()
		require.NoError(t, m.AddSingleton(func() *raLogger { return &raLogger{} }, Name("audit")))
		require.NoError(t, m.AddScoped(func(*raLogger) *raSvc1 { return &raSvc1{} }))
		require.NoError(t, m.AddScoped(func(struct {
			In
			Log   *raLogger `name:"audit"`
			Other *raLogger `name:"other"`
		}) *raSvc2 {
			return &raSvc2{}
		}))

		_, err = m.BuildWithOptions(all)
		require.ErrorAs(t, err, &buildErr)
		assert.Equal(t, "dependency validation failed", buildErr.Details)
		defects = raDefects(t, err)
		require.Len(t, defects, 2)
		assert.Nil(t, defects[0].(*ResolutionError).ServiceKey)
		assert.Equal(t, "other", defects[1].(*ResolutionError).ServiceKey)
	})

	t.Run("single_defect_is_reported_as_without_the_option", func(t *testing.T) {
		c := NewCollection()
		require.NoError(t, c.AddSingleton(func(*raLogger) *raDB { return &raDB{} }))

		_, withAll := c.BuildWithOptions(all)
		_, plain := c.Build()
		require.Error(t, withAll)
		assert.Equal(t, plain.Error(), withAll.Error())

		var buildErr *BuildError
		require.ErrorAs(t, withAll, &buildErr)
		_, isResolution := buildErr.Cause.(*ResolutionError)
		assert.True(t, isResolution, "a single cause is not wrapped in a join")
	})

	t.Run("verdict_is_never_changed", func(t *testing.T) {
		sets := map[string][]ModuleOption{
			"empty":          {},
			"optional_empty": {AddScoped(func(raHostIn) *raSvc1 { return &raSvc1{} })},
			"scoped_chain":   {AddScoped(func() *raSession { return &raSession{} }), AddScoped(func(*raSession) *raSvc1 { return &raSvc1{} })},
			"init_on_single": {AddSingleton(func() *raLogger { return &raLogger{} }), AddScoped(func(*raLogger) {})},
			"builtins":       {AddTransient(func(Scope, Provider) *raSvc1 { return &raSvc1{} })},
			"self_cycle":     {AddTransient(func(*raA) *raA { return &raA{} })},
			"conflict":       {AddScoped(func() *raSession { return &raSession{} }), AddSingleton(func(*raSession) *raSvc1 { return &raSvc1{} })},
			"missing":        {AddTransient(func(*raDB) *raSvc1 { return &raSvc1{} })},
		}

		for name, opts := range sets {
			c := NewCollection()
			require.NoError(t, c.AddModules(opts...), name)

			p1, plain := c.Build()
			p2, withAll := c.BuildWithOptions(all)
			assert.Equal(t, plain == nil, withAll == nil, name)
			if plain == nil {
				require.NoError(t, p1.Close())
				require.NoError(t, p2.Close())
			}
		}
	})

	t.Run("successful_build_is_a_normal_provider", func(t *testing.T) {
		var loggers, closed atomic.Int32

		c := NewCollection()
		require.NoError(t, c.AddSingleton(func() *raLogger { loggers.Add(1); return &raLogger{} }))
		require.NoError(t, c.AddSingleton(func() *raCloser { return &raCloser{closed: &closed} }))
		require.NoError(t, c.AddScoped(func(*raLogger) *raSession { return &raSession{} }))

		p, err := c.BuildWithOptions(all)
		require.NoError(t, err)
		assert.EqualValues(t, 1, loggers.Load())

		s, err := p.CreateScope(nil)
		require.NoError(t, err)
		one, err := Resolve[*raSession](s)
		require.NoError(t, err)
		two, err := Resolve[*raSession](s)
		require.NoError(t, err)
		assert.Same(t, one, two)

		require.NoError(t, p.Close())
		assert.EqualValues(t, 1, closed.Load())
		_, err = p.CreateScope(nil)
		require.ErrorIs(t, err, ErrProviderDisposed)
		assert.EqualValues(t, 1, loggers.Load())
	})

	t.Run("constructor_failures_are_not_aggregated", func(t *testing.T) {
		boom := errors.New("boom")
		var closed atomic.Int32

		c := NewCollection()
		require.NoError(t, c.AddSingleton(func() *raCloser { return &raCloser{closed: &closed} }))
		require.NoError(t, c.AddSingleton(func(*raCloser) (*raLogger, error) { return nil, boom }))

		_, err := c.BuildWithOptions(all)
		require.ErrorIs(t, err, boom)
		var buildErr *BuildError
		require.ErrorAs(t, err, &buildErr)
		assert.Equal(t, "singleton-creation", buildErr.Phase)
		assert.EqualValues(t, 1, closed.Load(), "what a failed build created is closed once")
	})

	t.Run("no_constructor_runs_when_validation_fails", func(t *testing.T) {
		var calls atomic.Int32

		c := NewCollection()
		require.NoError(t, c.AddSingleton(func() *raLogger { calls.Add(1); return &raLogger{} }))
		require.NoError(t, c.AddSingleton(func(*raDB) *raSvc1 { calls.Add(1); return &raSvc1{} }))
		require.NoError(t, c.AddSingleton(func(*raCache) *raSvc2 { calls.Add(1); return &raSvc2{} }))

		_, err := c.BuildWithOptions(all)
		require.Len(t, raDefects(t, err), 2)
		assert.Zero(t, calls.Load())

		// Fixing the registrations makes the same collection build
		require.NoError(t, c.AddSingleton(func() *raDB { return &raDB{} }))
		c.Remove(reflect.TypeOf((*raSvc2)(nil)))
		p, err := c.BuildWithOptions(all)
		require.NoError(t, err)
		assert.EqualValues(t, 2, calls.Load())
		require.NoError(t, p.Close())
	})

	t.Run("concurrent_builds", func(t *testing.T) {
		c := NewCollection()
		require.NoError(t, c.AddScoped(func() *raSession { return &raSession{} }))
		require.NoError(t, c.AddSingleton(func(*raSession, *raDB) *raSvc1 { return &raSvc1{} }))

		var wg sync.WaitGroup
		for i := 0; i < 8; i++ {
			wg.Add(1)
			go func() {
				defer wg.Done()
				_, err := c.BuildWithOptions(all)
				if assert.Error(t, err) {
					assert.Len(t, raDefects(t, err), 2)
				}
				assert.Equal(t, 2, c.Count())
			}()
		}
		wg.Wait()
	})
}

type raCloser struct{ closed *atomic.Int32 }

func (c *raCloser) Close() error { c.closed.Add(1); return nil }
