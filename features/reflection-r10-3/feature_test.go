package godi

import (
	"errors"
	"reflect"
	"sync"
	"testing"

	"github.com/junioryono/godi/v4/internal/reflection"
	"github.com/stretchr/testify/assert"
	"github.com/stretchr/testify/require"
)

type dupA struct{ id string }
type dupB struct{ id string }

type dupPlainTwice struct {
	Out
	First  *dupA
	Second *dupA
}

type dupKeyedTwice struct {
	Out
	First  *dupA `name:"x"`
	Other  *dupB
	Second *dupA `name:"x"`
}

type dupDifferentKeys struct {
	Out
	Plain  *dupA
	First  *dupA `name:"x"`
	Second *dupA `name:"y"`
}

type dupGroupMembers struct {
	Out
	Plain  *dupA
	First  *dupA `group:"g"`
	Second *dupA `group:"g"`
	Third  *dupA `group:"h"`
}

type dupNameAndGroup struct {
	Out
	First  *dupA `name:"x" group:"g"`
	Second *dupA `name:"x" group:"h"`
}

type dupIgnored struct {
	Out
	First   *dupA
	Second  *dupA `inject:"-"`
	third   *dupA //nolint:unused
	Another *dupB
}

type dupEmptyName struct {
	Out
	First  *dupA
	Second *dupA `name:""`
}

type dupDistinct struct {
	Out
	A *dupA
	B *dupB
}

func TestCheckResultObject_AgreesWithRegistration(t *testing.T) {
	tests := []struct {
		name        string
		constructor any
		duplicate   bool
		first       string
		second      string
		key         any
		services    int // registrations created when accepted
	}{
		{name: "same type twice", constructor: func() dupPlainTwice { return dupPlainTwice{} },
			duplicate: true, first: "First", second: "Second"},
		{name: "same type and key twice", constructor: func() (dupKeyedTwice, error) { return dupKeyedTwice{}, nil },
			duplicate: true, first: "First", second: "Second", key: "x"},
		{name: "pointer to result object", constructor: func() *dupPlainTwice { return &dupPlainTwice{} },
			duplicate: true, first: "First", second: "Second"},
		{name: "name and group tags are identified by name", constructor: func() dupNameAndGroup { return dupNameAndGroup{} },
			duplicate: true, first: "First", second: "Second", key: "x"},
		{name: "empty name tag is unkeyed", constructor: func() dupEmptyName { return dupEmptyName{} },
			duplicate: true, first: "First", second: "Second"},
		{name: "different keys", constructor: func() dupDifferentKeys { return dupDifferentKeys{} }, services: 3},
		{name: "group members never collide", constructor: func() dupGroupMembers { return dupGroupMembers{} }, services: 4},
		{name: "ignored and unexported fields", constructor: func() dupIgnored { return dupIgnored{} }, services: 2},
		{name: "distinct types", constructor: func() dupDistinct { return dupDistinct{} }, services: 2},
		{name: "plain constructor", constructor: func() *dupA { return &dupA{} }, services: 1},
		{name: "instance", constructor: &dupA{}, services: 1},
	}

	for _, tt := range tests {
		t.Run(tt.name, func(t *testing.T) {
			analyzer := reflection.New()
			checkErr := analyzer.CheckResultObject(tt.constructor)

			collection := NewCollection()
			addErr := collection.AddSingleton(tt.constructor)

			var already *AlreadyRegisteredError
			var alreadyValue AlreadyRegisteredError
			rejected := errors.As(addErr, &already) || errors.As(addErr, &alreadyValue)

			assert.Equal(t, tt.duplicate, checkErr != nil, "analysis verdict: %v", checkErr)
			assert.Equal(t, tt.duplicate, rejected, "registration verdict: %v", addErr)

			if !tt.duplicate {
				require.NoError(t, addErr)
				assert.Equal(t, tt.services, collection.Count())
				return
			}

			var dup *reflection.DuplicateResultError
			require.ErrorAs(t, checkErr, &dup)
			assert.Equal(t, reflect.TypeOf(&dupA{}), dup.Type)
			assert.Equal(t, tt.key, dup.Key)
			assert.Equal(t, tt.first, dup.First)
			assert.Equal(t, tt.second, dup.Second)
			assert.Contains(t, dup.Error(), tt.first)
			assert.Contains(t, dup.Error(), tt.second)

			// Registration names the same service type and leaves nothing behind
			if already != nil {
				assert.Equal(t, dup.Type, already.ServiceType)
			} else {
				assert.Equal(t, dup.Type, alreadyValue.ServiceType)
			}
			assert.Equal(t, 0, collection.Count())
		})
	}
}

// An accepted result object really is buildable and resolvable under every
// identity the check considered distinct, and its constructor ran once.
func TestCheckResultObject_AcceptedResultObjectBuilds(t *testing.T) {
	calls := 0
	constructor := func() dupDifferentKeys {
		calls++
		return dupDifferentKeys{
			Plain:  &dupA{id: "plain"},
			First:  &dupA{id: "x"},
			Second: &dupA{id: "y"},
		}
	}

	require.NoError(t, reflection.New().CheckResultObject(constructor))

	collection := NewCollection()
	require.NoError(t, collection.AddSingleton(constructor))

	provider, err := collection.Build()
	require.NoError(t, err)
	defer provider.Close()

	plain, err := Resolve[*dupA](provider)
	require.NoError(t, err)
	assert.Equal(t, "plain", plain.id)

	x, err := ResolveKeyed[*dupA](provider, "x")
	require.NoError(t, err)
	assert.Equal(t, "x", x.id)

	y, err := ResolveKeyed[*dupA](provider, "y")
	require.NoError(t, err)
	assert.Equal(t, "y", y.id)

	assert.Equal(t, 1, calls)
}

func TestCheckResultObject_AnalysisFailureAndCache(t *testing.T) {
	analyzer := reflection.New()

	var typedNil func() dupPlainTwice
	_, analyzeErr := analyzer.Analyze(typedNil)
	require.Error(t, analyzeErr)

	err := analyzer.CheckResultObject(typedNil)
	require.Error(t, err)
	assert.Equal(t, analyzeErr.Error(), err.Error())
	var dup *reflection.DuplicateResultError
	assert.False(t, errors.As(err, &dup))
	require.Error(t, analyzer.CheckResultObject(nil))
	assert.Equal(t, 0, analyzer.CacheSize())

	// The verdict is stable over repeated (cached) calls and the analysis result
	// is left as it was
	constructor := func() dupKeyedTwice { return dupKeyedTwice{} }
	first := analyzer.CheckResultObject(constructor)
	second := analyzer.CheckResultObject(constructor)
	require.Error(t, first)
	assert.Equal(t, first.Error(), second.Error())
	assert.Equal(t, 1, analyzer.CacheSize())

	info, err := analyzer.Analyze(constructor)
	require.NoError(t, err)
	assert.Len(t, info.Returns, 3)
}

func TestCheckResultObject_Concurrent(t *testing.T) {
	analyzer := reflection.New()
	bad := func() dupPlainTwice { return dupPlainTwice{} }
	good := func() dupDifferentKeys { return dupDifferentKeys{} }

	var wg sync.WaitGroup
	for i := 0; i < 16; i++ {
		wg.Add(1)
		go func() {
			defer wg.Done()
			for j := 0; j < 50; j++ {
				if analyzer.CheckResultObject(bad) == nil {
					t.Errorf("duplicate not reported")
					return
				}
				if err := analyzer.CheckResultObject(good); err != nil {
					t.Errorf("unexpected report: %v", err)
					return
				}
			}
		}()
	}
	wg.Wait()
}
