package fiber

import (
	"errors"
	"fmt"
	"net/http"
	"net/http/httptest"
	"sync"
	"sync/atomic"
	"testing"
	"time"

	"github.com/gofiber/fiber/v2"
	"github.com/junioryono/godi/v4"
	"github.com/stretchr/testify/assert"
	"github.com/stretchr/testify/require"
)

// metricsResource is a scoped, closable service.
type metricsResource struct {
	delay    time.Duration
	closeErr error
	closed   atomic.Int32
	// closedAtReport is set by the metrics callback of the test.
	closedAtReport atomic.Int32
}

func (r *metricsResource) Close() error {
	time.Sleep(r.delay)
	r.closed.Add(1)
	return r.closeErr
}

// metricsSink is a concurrency-safe metrics callback.
type metricsSink struct {
	mu  sync.Mutex
	got []RequestMetrics
}

func (s *metricsSink) record(m RequestMetrics) {
	s.mu.Lock()
	s.got = append(s.got, m)
	s.mu.Unlock()
}

func (s *metricsSink) all() []RequestMetrics {
	s.mu.Lock()
	defer s.mu.Unlock()
	return append([]RequestMetrics(nil), s.got...)
}

func metricsProvider(t *testing.T, ctor func() *metricsResource) godi.Provider {
	t.Helper()
	collection := godi.NewCollection()
	require.NoError(t, collection.AddScoped(ctor))
	provider, err := collection.Build()
	require.NoError(t, err)
	t.Cleanup(func() { _ = provider.Close() })
	return provider
}

func fiberGet(t *testing.T, app *fiber.App, path string) int {
	t.Helper()
	resp, err := app.Test(httptest.NewRequest(http.MethodGet, path, nil))
	require.NoError(t, err)
	defer resp.Body.Close()
	return resp.StatusCode
}

func TestWithMetrics(t *testing.T) {
	t.Run("reports once per request after the scope is closed", func(t *testing.T) {
		res := &metricsResource{delay: 5 * time.Millisecond}
		provider := metricsProvider(t, func() *metricsResource { return res })

		var sink metricsSink
		var scopeID string
		var captured godi.Scope
		app := fiber.New()
		app.Use(ScopeMiddleware(provider, WithMetrics(func(m RequestMetrics) {
			res.closedAtReport.Store(res.closed.Load())
			sink.record(m)
		})))
		app.Get("/users/:id", func(c *fiber.Ctx) error {
			captured = FromContext(c)
			scopeID = captured.ID()
			godi.MustResolve[*metricsResource](captured)
			return c.SendStatus(http.StatusOK)
		})

		assert.Equal(t, http.StatusOK, fiberGet(t, app, "/users/7"))

		got := sink.all()
		require.Len(t, got, 1)
		m := got[0]
		assert.Equal(t, http.MethodGet, m.Method)
		assert.Equal(t, "/users/7", m.Path)
		assert.Equal(t, scopeID, m.ScopeID)
		assert.NoError(t, m.Err)
		assert.NoError(t, m.CloseErr)
		assert.GreaterOrEqual(t, m.ScopeClose, 5*time.Millisecond)
		assert.GreaterOrEqual(t, m.Total, m.ScopeCreation+m.ScopeClose)

		// The report came after the one and only close.
		assert.EqualValues(t, 1, res.closedAtReport.Load())
		assert.EqualValues(t, 1, res.closed.Load())
		_, err := godi.Resolve[*metricsResource](captured)
		assert.ErrorIs(t, err, godi.ErrScopeDisposed)

		// Strings survive reuse of the fiber.Ctx by later requests.
		assert.Equal(t, http.StatusOK, fiberGet(t, app, "/users/8888"))
		got = sink.all()
		require.Len(t, got, 2)
		assert.Equal(t, "/users/7", got[0].Path)
		assert.Equal(t, "/users/8888", got[1].Path)
		assert.NotEqual(t, got[0].ScopeID, got[1].ScopeID)
	})

	t.Run("handler error and close error", func(t *testing.T) {
		closeFailure := errors.New("close failed")
		res := &metricsResource{closeErr: closeFailure}
		provider := metricsProvider(t, func() *metricsResource { return res })

		var sink metricsSink
		var closeErrs []error
		app := fiber.New()
		app.Use(ScopeMiddleware(provider,
			WithMetrics(sink.record),
			WithCloseErrorHandler(func(err error) { closeErrs = append(closeErrs, err) }),
		))
		app.Get("/", func(c *fiber.Ctx) error {
			godi.MustResolve[*metricsResource](FromContext(c))
			return fiber.NewError(http.StatusBadRequest, "bad")
		})

		assert.Equal(t, http.StatusBadRequest, fiberGet(t, app, "/"))

		got := sink.all()
		require.Len(t, got, 1)
		var fe *fiber.Error
		assert.ErrorAs(t, got[0].Err, &fe)
		var disposal *godi.DisposalError
		require.ErrorAs(t, got[0].CloseErr, &disposal)
		require.Len(t, disposal.Errors, 1)
		assert.ErrorIs(t, disposal.Errors[0], closeFailure)

		// The close error handler still sees the error, exactly once.
		require.Len(t, closeErrs, 1)
		assert.Same(t, got[0].CloseErr, closeErrs[0])
		assert.EqualValues(t, 1, res.closed.Load())
	})

	t.Run("failing middleware: handler skipped, scope closed, reported", func(t *testing.T) {
		res := &metricsResource{}
		provider := metricsProvider(t, func() *metricsResource { return res })

		denied := errors.New("denied")
		var sink metricsSink
		handlerRan, errorHandlerRuns := false, 0
		app := fiber.New()
		app.Use(ScopeMiddleware(provider,
			WithMetrics(sink.record),
			WithMiddleware(func(scope godi.Scope, _ *fiber.Ctx) error {
				godi.MustResolve[*metricsResource](scope)
				return denied
			}),
			WithErrorHandler(func(c *fiber.Ctx, err error) error {
				errorHandlerRuns++
				assert.EqualValues(t, 1, res.closed.Load())
				return c.SendStatus(http.StatusForbidden)
			}),
		))
		app.Get("/", func(c *fiber.Ctx) error { handlerRan = true; return nil })

		assert.Equal(t, http.StatusForbidden, fiberGet(t, app, "/"))
		assert.False(t, handlerRan)
		assert.Equal(t, 1, errorHandlerRuns)
		assert.EqualValues(t, 1, res.closed.Load())

		got := sink.all()
		require.Len(t, got, 1)
		assert.ErrorIs(t, got[0].Err, denied)
		assert.NotEmpty(t, got[0].ScopeID)
		assert.NoError(t, got[0].CloseErr)
	})

	t.Run("scope creation failure is reported without a scope", func(t *testing.T) {
		provider := metricsProvider(t, func() *metricsResource { return &metricsResource{} })
		require.NoError(t, provider.Close())

		var sink metricsSink
		handlerRan := false
		app := fiber.New()
		app.Use(ScopeMiddleware(provider, WithMetrics(sink.record)))
		app.Get("/", func(c *fiber.Ctx) error { handlerRan = true; return nil })

		assert.Equal(t, http.StatusInternalServerError, fiberGet(t, app, "/"))
		assert.False(t, handlerRan)

		got := sink.all()
		require.Len(t, got, 1)
		assert.ErrorIs(t, got[0].Err, godi.ErrProviderDisposed)
		assert.Empty(t, got[0].ScopeID)
		assert.Zero(t, got[0].ScopeClose)
	})

	t.Run("concurrent requests are reported individually", func(t *testing.T) {
		var mu sync.Mutex
		var created []*metricsResource
		provider := metricsProvider(t, func() *metricsResource {
			r := &metricsResource{}
			mu.Lock()
			created = append(created, r)
			mu.Unlock()
			return r
		})

		var sink metricsSink
		var seen sync.Map // path -> scope ID seen by the handler
		app := fiber.New()
		app.Use(ScopeMiddleware(provider, WithMetrics(sink.record)))
		app.Get("/r/:n", func(c *fiber.Ctx) error {
			scope := FromContext(c)
			godi.MustResolve[*metricsResource](scope)
			seen.Store(string([]byte(c.Path())), scope.ID())
			return c.SendStatus(http.StatusOK)
		})

		const n = 24
		var wg sync.WaitGroup
		for i := 0; i < n; i++ {
			wg.Add(1)
			go func(i int) {
				defer wg.Done()
				resp, err := app.Test(httptest.NewRequest(http.MethodGet, fmt.Sprintf("/r/%d", i), nil))
				if err == nil {
					resp.Body.Close()
				}
			}(i)
		}
		wg.Wait()

		got := sink.all()
		require.Len(t, got, n)
		ids := map[string]bool{}
		for _, m := range got {
			want, ok := seen.Load(m.Path)
			require.True(t, ok, m.Path)
			assert.Equal(t, want, m.ScopeID)
			ids[m.ScopeID] = true
		}
		assert.Len(t, ids, n)
		require.Len(t, created, n)
		for _, r := range created {
			assert.EqualValues(t, 1, r.closed.Load())
		}
	})

	t.Run("no callback configured", func(t *testing.T) {
		res := &metricsResource{}
		provider := metricsProvider(t, func() *metricsResource { return res })

		app := fiber.New()
		app.Use(ScopeMiddleware(provider, WithMetrics(nil)))
		app.Get("/", func(c *fiber.Ctx) error {
			godi.MustResolve[*metricsResource](FromContext(c))
			return c.SendStatus(http.StatusOK)
		})

		assert.Equal(t, http.StatusOK, fiberGet(t, app, "/"))
		assert.EqualValues(t, 1, res.closed.Load())
	})
}
