package godi

import (
	"context"
	"errors"
	"sync"
	"sync/atomic"
	"testing"
	"time"

	"github.com/stretchr/testify/assert"
	"github.com/stretchr/testify/require"
)

// closedProbe is a disposable scoped service used to check that callbacks run
// after the instances of the scope have been closed.
type closedProbe struct {
	closed atomic.Bool
}

func (c *closedProbe) Close() error {
	c.closed.Store(true)
	return nil
}

func waitClosedHook(t *testing.T, ch <-chan struct{}) {
	t.Helper()
	select {
	case <-ch:
	case <-time.After(5 * time.Second):
		t.Fatal("OnClosed callback did not run")
	}
}

func TestScopeOnClosed(t *testing.T) {
	t.Run("runs once after disposal in registration order", func(t *testing.T) {
		c := NewCollection()
		require.NoError(t, c.AddScoped(func() *closedProbe { return &closedProbe{} }))
		p, err := c.Build()
		require.NoError(t, err)
		defer p.Close()

		s, err := p.CreateScope(context.Background())
		require.NoError(t, err)
		probe, err := Resolve[*closedProbe](s)
		require.NoError(t, err)

		var order []int
		observer := s.(ClosedObserver)
		require.NoError(t, observer.OnClosed(func() {
			order = append(order, 1)
			assert.True(t, probe.closed.Load(), "instances are closed before the callback")
			assert.Error(t, s.Context().Err(), "context is cancelled before the callback")

			_, err := s.Get(PtrTypeOf[closedProbe]())
			assert.ErrorIs(t, err, ErrScopeDisposed)

			impl := p.(*provider)
			impl.scopesMu.Lock()
			_, tracked := impl.scopes[s.(*scope)]
			impl.scopesMu.Unlock()
			assert.False(t, tracked, "scope is untracked before the callback")
		}))
		require.NoError(t, observer.OnClosed(func() { order = append(order, 2) }))

		require.NoError(t, s.Close())
		assert.Equal(t, []int{1, 2}, order)

		require.NoError(t, s.Close())
		assert.Equal(t, []int{1, 2}, order, "second Close must not run callbacks again")
	})

	t.Run("rejects closed scope and nil callback", func(t *testing.T) {
		p, err := NewCollection().Build()
		require.NoError(t, err)
		defer p.Close()

		s, err := p.CreateScope(context.Background())
		require.NoError(t, err)
		observer := s.(ClosedObserver)

		var validationErr *ValidationError
		require.ErrorAs(t, observer.OnClosed(nil), &validationErr)

		require.NoError(t, s.Close())

		var ran atomic.Bool
		require.ErrorIs(t, observer.OnClosed(func() { ran.Store(true) }), ErrScopeDisposed)
		assert.False(t, ran.Load())
	})

	t.Run("context cancellation", func(t *testing.T) {
		p, err := NewCollection().Build()
		require.NoError(t, err)
		defer p.Close()

		ctx, cancel := context.WithCancel(context.Background())
		s, err := p.CreateScope(ctx)
		require.NoError(t, err)

		var calls atomic.Int32
		done := make(chan struct{})
		require.NoError(t, s.(ClosedObserver).OnClosed(func() {
			calls.Add(1)
			close(done)
		}))

		cancel()
		waitClosedHook(t, done)
		require.NoError(t, s.Close())
		assert.EqualValues(t, 1, calls.Load())
	})

	t.Run("parent and provider close", func(t *testing.T) {
		p, err := NewCollection().Build()
		require.NoError(t, err)

		parent, err := p.CreateScope(context.Background())
		require.NoError(t, err)
		child, err := parent.CreateScope(nil)
		require.NoError(t, err)
		other, err := p.CreateScope(context.Background())
		require.NoError(t, err)

		var mu sync.Mutex
		var order []string
		record := func(name string) func() {
			return func() {
				mu.Lock()
				order = append(order, name)
				mu.Unlock()
			}
		}
		require.NoError(t, parent.(ClosedObserver).OnClosed(record("parent")))
		require.NoError(t, child.(ClosedObserver).OnClosed(record("child")))
		require.NoError(t, other.(ClosedObserver).OnClosed(record("other")))

		require.NoError(t, parent.Close())
		assert.Equal(t, []string{"child", "parent"}, order, "descendants finish first")

		require.NoError(t, p.Close())
		assert.Equal(t, []string{"child", "parent", "other"}, order)
	})

	t.Run("panicking callback does not break Close", func(t *testing.T) {
		p, err := NewCollection().Build()
		require.NoError(t, err)
		defer p.Close()

		s, err := p.CreateScope(context.Background())
		require.NoError(t, err)

		var ran atomic.Bool
		require.NoError(t, s.(ClosedObserver).OnClosed(func() { panic("boom") }))
		require.NoError(t, s.(ClosedObserver).OnClosed(func() { ran.Store(true) }))

		require.NotPanics(t, func() { require.NoError(t, s.Close()) })
		assert.True(t, ran.Load())
	})
}

func TestScopeOnClosedDuringCreation(t *testing.T) {
	t.Run("initializer callback runs when creation succeeds", func(t *testing.T) {
		var calls atomic.Int32
		c := NewCollection()
		require.NoError(t, c.AddScoped(func(s Scope) error {
			return s.(ClosedObserver).OnClosed(func() { calls.Add(1) })
		}))
		p, err := c.Build()
		require.NoError(t, err)

		s, err := p.CreateScope(context.Background())
		require.NoError(t, err)
		assert.EqualValues(t, 0, calls.Load())

		require.NoError(t, s.Close())
		assert.EqualValues(t, 1, calls.Load())

		// The root scope ran the initializer as well: it finishes with the provider
		require.NoError(t, p.Close())
		assert.EqualValues(t, 2, calls.Load())
		require.NoError(t, p.Close())
		assert.EqualValues(t, 2, calls.Load())
	})

	t.Run("never runs when scope creation fails", func(t *testing.T) {
		var calls atomic.Int32
		var fail atomic.Bool
		c := NewCollection()
		require.NoError(t, c.AddScoped(func(s Scope) error {
			return s.(ClosedObserver).OnClosed(func() { calls.Add(1) })
		}))
		require.NoError(t, c.AddScoped(func() error {
			if fail.Load() {
				return errors.New("initialization failed")
			}
			return nil
		}))
		p, err := c.Build()
		require.NoError(t, err)

		parent, err := p.CreateScope(context.Background())
		require.NoError(t, err)

		fail.Store(true)
		_, err = p.CreateScope(context.Background())
		require.Error(t, err)
		_, err = parent.CreateScope(nil)
		require.Error(t, err)
		assert.EqualValues(t, 0, calls.Load(), "failed creations must not notify")

		require.NoError(t, parent.Close())
		assert.EqualValues(t, 1, calls.Load())
		require.NoError(t, p.Close())
		assert.EqualValues(t, 2, calls.Load(), "root scope notifies once")
	})

	t.Run("never runs when Build fails", func(t *testing.T) {
		var calls atomic.Int32
		c := NewCollection()
		require.NoError(t, c.AddSingleton(func(s Scope) (*TDependency, error) {
			if err := s.(ClosedObserver).OnClosed(func() { calls.Add(1) }); err != nil {
				return nil, err
			}
			return &TDependency{Name: "dep"}, nil
		}))
		require.NoError(t, c.AddSingleton(func(*TDependency) (*TService, error) {
			return nil, errors.New("constructor failed")
		}))

		_, err := c.Build()
		require.Error(t, err)
		assert.EqualValues(t, 0, calls.Load())

		// A second, successful Build of the same kind of registration notifies
		c = NewCollection()
		require.NoError(t, c.AddSingleton(func(s Scope) (*TDependency, error) {
			if err := s.(ClosedObserver).OnClosed(func() { calls.Add(1) }); err != nil {
				return nil, err
			}
			return &TDependency{Name: "dep"}, nil
		}))
		p, err := c.Build()
		require.NoError(t, err)
		require.NoError(t, p.Close())
		assert.EqualValues(t, 1, calls.Load())
	})
}

func TestScopeOnClosedConcurrent(t *testing.T) {
	p, err := NewCollection().Build()
	require.NoError(t, err)
	defer p.Close()

	for round := 0; round < 50; round++ {
		s, err := p.CreateScope(context.Background())
		require.NoError(t, err)
		observer := s.(ClosedObserver)

		const workers = 8
		var accepted, ran atomic.Int32
		var wg sync.WaitGroup
		start := make(chan struct{})

		for i := 0; i < workers; i++ {
			wg.Add(1)
			go func() {
				defer wg.Done()
				<-start
				err := observer.OnClosed(func() { ran.Add(1) })
				if err == nil {
					accepted.Add(1)
				} else {
					assert.ErrorIs(t, err, ErrScopeDisposed)
				}
			}()
		}
		for i := 0; i < 3; i++ {
			wg.Add(1)
			go func() {
				defer wg.Done()
				<-start
				assert.NoError(t, s.Close())
			}()
		}

		close(start)
		wg.Wait()

		// The Close call that performed the disposal has returned, so the
		// callbacks it accepted have run; later registrations were refused.
		assert.Equal(t, accepted.Load(), ran.Load(), "each accepted callback runs exactly once")
	}
}
