package godi

import (
	"context"
	"errors"
	"reflect"
	"sync"
	"sync/atomic"
	"testing"

	"github.com/stretchr/testify/assert"
	"github.com/stretchr/testify/require"
)

type hcDB struct{}

type hcRequest struct{ scopeID string }

// hcCheck is a health check with a Close method.
type hcCheck struct {
	name   string
	err    error
	runs   atomic.Int32
	closed atomic.Int32
}

func (c *hcCheck) CheckHealth(context.Context) error {
	c.runs.Add(1)
	return c.err
}

func (c *hcCheck) Close() error {
	c.closed.Add(1)
	return nil
}

type hcCtxKey struct{}

var errHCDown = errors.New("database is down")

func TestHealth_RunsAllChecksInOrder(t *testing.T) {
	var constructed atomic.Int32
	first := &hcCheck{name: "first"}
	failing := &hcCheck{name: "failing", err: errHCDown}

	c := NewCollection()
	require.NoError(t, c.AddModules(NewModule("app",
		AddSingleton(func() *hcDB { return &hcDB{} }),
		AddHealthCheck(func(*hcDB) *hcCheck {
			constructed.Add(1)
			return first
		}, Singleton),
		AddHealthCheck(func() HealthCheckFunc {
			return func(ctx context.Context) error {
				assert.Equal(t, "value", ctx.Value(hcCtxKey{}), "checks receive the caller's context")
				return nil
			}
		}, Singleton),
		AddHealthCheck(func() *hcCheck { return failing }, Singleton),
		AddHealthCheck(func() HealthCheckFunc {
			return func(context.Context) error { panic("exploded") }
		}, Transient),
	)))

	p, err := c.Build()
	require.NoError(t, err)
	assert.EqualValues(t, 1, constructed.Load(), "singleton checks are constructed during Build")

	ctx := context.WithValue(context.Background(), hcCtxKey{}, "value")
	err = CheckHealth(ctx, p)
	require.Error(t, err)

	var healthErr *HealthError
	require.ErrorAs(t, err, &healthErr)
	require.Len(t, healthErr.Failures, 2, "every check runs, also after a failure")
	assert.Equal(t, 2, healthErr.Failures[0].Index)
	assert.Equal(t, reflect.TypeOf(failing), healthErr.Failures[0].Checker)
	assert.Same(t, errHCDown, healthErr.Failures[0].Err)
	assert.Equal(t, 3, healthErr.Failures[1].Index)
	assert.Contains(t, healthErr.Failures[1].Err.Error(), "exploded")
	assert.ErrorIs(t, err, errHCDown)
	assert.Contains(t, err.Error(), "database is down")

	// The group is an ordinary group: same members, same order, same instances
	members, err := ResolveGroup[HealthChecker](p, HealthGroup)
	require.NoError(t, err)
	require.Len(t, members, 4)
	assert.Same(t, first, members[0])
	assert.Same(t, failing, members[2])

	// Once healthy again, and from a scope
	failing.err = nil
	s, err := p.CreateScope(context.Background())
	require.NoError(t, err)
	err = CheckHealth(ctx, s)
	require.ErrorAs(t, err, &healthErr)
	assert.Len(t, healthErr.Failures, 1)

	assert.EqualValues(t, 1, constructed.Load(), "singleton checks are never constructed again")
	assert.EqualValues(t, 2, first.runs.Load())

	// Closed containers report the usual errors and run nothing
	require.NoError(t, s.Close())
	assert.ErrorIs(t, CheckHealth(ctx, s), ErrScopeDisposed)
	assert.Zero(t, first.closed.Load(), "a scope does not close singleton checks")

	require.NoError(t, p.Close())
	assert.ErrorIs(t, CheckHealth(ctx, p), ErrProviderDisposed)
	assert.EqualValues(t, 2, first.runs.Load())
	assert.EqualValues(t, 1, first.closed.Load(), "checks with Close are closed with the provider, once")
	assert.EqualValues(t, 1, failing.closed.Load())

	assert.ErrorIs(t, CheckHealth(ctx, nil), ErrProviderNil)
}

func TestHealth_NoChecksIsHealthy(t *testing.T) {
	p, err := NewCollection().Build()
	require.NoError(t, err)
	defer p.Close()

	//nolint:staticcheck // a nil context is accepted on purpose
	assert.NoError(t, CheckHealth(nil, p))
}

func TestHealth_ScopedChecksBelongToTheScope(t *testing.T) {
	var constructed atomic.Int32
	var checks sync.Map // scope ID -> *hcCheck

	c := NewCollection()
	require.NoError(t, c.AddScoped(func(s Scope) *hcRequest { return &hcRequest{scopeID: s.ID()} }))
	require.NoError(t, c.AddModules(AddHealthCheck(func(r *hcRequest) *hcCheck {
		constructed.Add(1)
		check := &hcCheck{name: r.scopeID}
		checks.Store(r.scopeID, check)
		return check
	}, Scoped)))

	p, err := c.Build()
	require.NoError(t, err)
	defer p.Close()
	assert.Zero(t, constructed.Load())

	s1, err := p.CreateScope(context.Background())
	require.NoError(t, err)
	s2, err := p.CreateScope(context.Background())
	require.NoError(t, err)

	require.NoError(t, CheckHealth(context.Background(), s1))
	require.NoError(t, CheckHealth(context.Background(), s1))
	require.NoError(t, CheckHealth(context.Background(), s2))
	assert.EqualValues(t, 2, constructed.Load(), "one scoped check per scope")

	check1, _ := checks.Load(s1.ID())
	check2, _ := checks.Load(s2.ID())
	assert.EqualValues(t, 2, check1.(*hcCheck).runs.Load())
	assert.EqualValues(t, 1, check2.(*hcCheck).runs.Load())

	require.NoError(t, s1.Close())
	assert.EqualValues(t, 1, check1.(*hcCheck).closed.Load())
	assert.Zero(t, check2.(*hcCheck).closed.Load())
	require.NoError(t, s2.Close())
	assert.EqualValues(t, 1, check2.(*hcCheck).closed.Load())
}

func TestHealth_RegistrationIsAnOrdinaryGroupRegistration(t *testing.T) {
	ctor := func() *hcCheck { return &hcCheck{} }

	viaHelper := NewCollection()
	require.NoError(t, viaHelper.AddModules(AddHealthCheck(ctor, Transient)))
	direct := NewCollection()
	require.NoError(t, direct.AddTransient(ctor, Group(HealthGroup), As[HealthChecker]()))

	require.Equal(t, direct.Count(), viaHelper.Count())
	a, b := viaHelper.ToSlice()[0], direct.ToSlice()[0]
	assert.Equal(t, b.Type, a.Type)
	assert.Equal(t, b.Key, a.Key)
	assert.Equal(t, b.Group, a.Group)
	assert.Equal(t, b.Lifetime, a.Lifetime)

	// The option can be applied to several collections without side effects
	opts := make([]AddOption, 0, 4)
	option := AddHealthCheck(ctor, Singleton, opts...)
	for i := 0; i < 2; i++ {
		c := NewCollection()
		require.NoError(t, c.AddModules(option, option))
		assert.Equal(t, 2, c.Count())
	}
}

func TestHealth_RejectedRegistrationsChangeNothing(t *testing.T) {
	c := NewCollection()
	require.NoError(t, c.AddModules(AddHealthCheck(func() *hcCheck { return &hcCheck{} }, Singleton)))

	var (
		mismatchErr   *TypeMismatchError
		validationErr *ValidationError
		lifetimeErr   *LifetimeError
		moduleErr     ModuleError
	)

	// Not a health check
	err := c.AddModules(AddHealthCheck(func() *hcDB { return &hcDB{} }, Singleton))
	assert.ErrorAs(t, err, &mismatchErr)

	// Several results would not end up in the health group
	err = c.AddModules(AddHealthCheck(func() (*hcCheck, *hcDB) { return &hcCheck{}, &hcDB{} }, Singleton))
	assert.ErrorAs(t, err, &validationErr)
	err = c.AddModules(AddHealthCheck(func() error { return nil }, Scoped))
	assert.ErrorAs(t, err, &validationErr)

	// Invalid lifetime, reported through the enclosing module
	err = c.AddModules(NewModule("health", AddHealthCheck(func() *hcCheck { return &hcCheck{} }, Lifetime(42))))
	assert.ErrorAs(t, err, &moduleErr)
	assert.ErrorAs(t, err, &lifetimeErr)

	// A name cannot be combined with the group
	err = c.AddModules(AddHealthCheck(func() *hcCheck { return &hcCheck{} }, Singleton, Name("db")))
	assert.Error(t, err)

	// Nil constructor: the collection's own error
	err = c.AddModules(AddHealthCheck(nil, Singleton))
	assert.ErrorIs(t, err, ErrConstructorNil)

	assert.Equal(t, 1, c.Count(), "rejected registrations leave the collection as it was")
	p, err := c.Build()
	require.NoError(t, err)
	defer p.Close()
	members, err := ResolveGroup[HealthChecker](p, HealthGroup)
	require.NoError(t, err)
	assert.Len(t, members, 1)
}

func TestHealth_LifetimeRulesApply(t *testing.T) {
	c := NewCollection()
	require.NoError(t, c.AddScoped(func() *hcRequest { return &hcRequest{} }))
	require.NoError(t, c.AddModules(AddHealthCheck(func(*hcRequest) *hcCheck { return &hcCheck{} }, Singleton)))

	_, err := c.Build()
	var conflict *LifetimeConflictError
	require.ErrorAs(t, err, &conflict, "a singleton check cannot depend on a scoped service")

	// A check whose dependency is missing is reported at Build, too
	c = NewCollection()
	require.NoError(t, c.AddModules(AddHealthCheck(func(*hcDB) *hcCheck { return &hcCheck{} }, Transient)))
	_, err = c.Build()
	assert.ErrorIs(t, err, ErrServiceNotFound)
}

func TestHealth_Concurrent(t *testing.T) {
	shared := &hcCheck{}

	c := NewCollection()
	require.NoError(t, c.AddModules(
		AddHealthCheck(func() *hcCheck { return shared }, Singleton),
		AddHealthCheck(func() HealthCheckFunc { return func(context.Context) error { return nil } }, Scoped),
	))
	p, err := c.Build()
	require.NoError(t, err)

	const workers, rounds = 8, 25
	var wg sync.WaitGroup
	for i := 0; i < workers; i++ {
		wg.Add(1)
		go func() {
			defer wg.Done()
			for j := 0; j < rounds; j++ {
				s, err := p.CreateScope(context.Background())
				if !assert.NoError(t, err) {
					return
				}
				assert.NoError(t, CheckHealth(context.Background(), s))
				assert.NoError(t, CheckHealth(context.Background(), p))
				assert.NoError(t, s.Close())
			}
		}()
	}
	wg.Wait()

	assert.EqualValues(t, 2*workers*rounds, shared.runs.Load())
	require.NoError(t, p.Close())
	assert.EqualValues(t, 1, shared.closed.Load())
}
