package graph_test

import (
	"reflect"
	"sync"
	"testing"

	"github.com/junioryono/godi/v4"
	"github.com/junioryono/godi/v4/internal/graph"
	"github.com/junioryono/godi/v4/internal/reflection"
	"github.com/stretchr/testify/assert"
	"github.com/stretchr/testify/require"
)

type (
	clA struct{}
	clB struct{}
	clC struct{}
	clD struct{}
	clM struct{}
)

var (
	clTypeA = reflect.TypeOf(clA{})
	clTypeB = reflect.TypeOf(clB{})
	clTypeC = reflect.TypeOf(clC{})
	clTypeD = reflect.TypeOf(clD{})
	clTypeM = reflect.TypeOf(clM{})
)

func clProvider(t reflect.Type, deps ...reflect.Type) *godi.Descriptor {
	d := &godi.Descriptor{Type: t, Lifetime: godi.Singleton}
	for _, dep := range deps {
		d.Dependencies = append(d.Dependencies, &reflection.Dependency{Type: dep})
	}
	return d
}

// clView is everything the query API says about a graph, keyed by node.
type clView struct {
	Size         int
	Acyclic      bool
	Order        []graph.NodeKey
	Dependencies map[graph.NodeKey][]graph.NodeKey
	Dependents   map[graph.NodeKey][]graph.NodeKey
	Transitive   map[graph.NodeKey][]graph.NodeKey
	Meta         map[graph.NodeKey][3]int // in, out, depth
	HasProvider  map[graph.NodeKey]bool
	Roots        []graph.NodeKey
	Leaves       []graph.NodeKey
}

func clObserve(t *testing.T, g *graph.DependencyGraph) clView {
	t.Helper()
	v := clView{
		Size:         g.Size(),
		Acyclic:      g.IsAcyclic(),
		Dependencies: map[graph.NodeKey][]graph.NodeKey{},
		Dependents:   map[graph.NodeKey][]graph.NodeKey{},
		Transitive:   map[graph.NodeKey][]graph.NodeKey{},
		Meta:         map[graph.NodeKey][3]int{},
		HasProvider:  map[graph.NodeKey]bool{},
	}
	g.CalculateDepths()

	sorted, err := g.TopologicalSort()
	require.NoError(t, err)
	position := map[graph.NodeKey]int{}
	for i, node := range sorted {
		k := node.Key
		position[k] = i
		v.Order = append(v.Order, k)
		v.Dependencies[k] = g.GetDependencies(k.Type, k.Key, k.Group)
		v.Dependents[k] = g.GetDependents(k.Type, k.Key, k.Group)
		v.Transitive[k] = g.GetTransitiveDependencies(k.Type, k.Key, k.Group)
		v.Meta[k] = [3]int{node.InDegree, node.OutDegree, node.Depth}
		v.HasProvider[k] = node.Provider != nil
	}
	for k, deps := range v.Dependencies {
		for _, dep := range deps {
			require.Less(t, position[dep], position[k], "%v must come after %v", k, dep)
		}
	}
	for _, node := range g.GetRoots() {
		v.Roots = append(v.Roots, node.Key)
	}
	for _, node := range g.GetLeaves() {
		v.Leaves = append(v.Leaves, node.Key)
	}
	return v
}

// clRequireSameView compares two views up to the order of unordered answers.
func clRequireSameView(t *testing.T, want, got clView) {
	t.Helper()
	require.Equal(t, want.Size, got.Size)
	require.Equal(t, want.Acyclic, got.Acyclic)
	require.ElementsMatch(t, want.Order, got.Order)
	require.ElementsMatch(t, want.Roots, got.Roots)
	require.ElementsMatch(t, want.Leaves, got.Leaves)
	require.Equal(t, want.Meta, got.Meta)
	require.Equal(t, want.HasProvider, got.HasProvider)
	for _, k := range want.Order {
		require.ElementsMatch(t, want.Dependencies[k], got.Dependencies[k], "dependencies of %v", k)
		require.ElementsMatch(t, want.Dependents[k], got.Dependents[k], "dependents of %v", k)
		require.ElementsMatch(t, want.Transitive[k], got.Transitive[k], "transitive of %v", k)
	}
}

func clBuild(t *testing.T) *graph.DependencyGraph {
	t.Helper()
	g := graph.NewDependencyGraph()

	// D -> C -> B -> A, D -> [group of M] -> {m1 -> A:"k", m2}
	require.NoError(t, g.AddProvider(clProvider(clTypeA)))
	require.NoError(t, g.AddProvider(&godi.Descriptor{Type: clTypeA, Key: "k"}))
	require.NoError(t, g.AddProvider(clProvider(clTypeB, clTypeA)))
	require.NoError(t, g.AddProvider(clProvider(clTypeC, clTypeB)))
	require.NoError(t, g.AddProvider(&godi.Descriptor{
		Type: clTypeD,
		Dependencies: []*reflection.Dependency{
			{Type: clTypeC},
			{Type: clTypeM, Group: "g"},
		},
	}))
	require.NoError(t, g.AddProvider(&godi.Descriptor{Type: clTypeM, Key: "m1", Group: "g",
		Dependencies: []*reflection.Dependency{{Type: clTypeA, Key: "k"}}}))
	require.NoError(t, g.AddProvider(&godi.Descriptor{Type: clTypeM, Key: "m2", Group: "g"}))
	return g
}

func TestClone_EqualButIndependent(t *testing.T) {
	g := clBuild(t)
	_, err := g.TopologicalSort() // warm the original's caches
	require.NoError(t, err)
	require.True(t, g.IsAcyclic())

	original := clObserve(t, g)
	c := g.Clone()
	clRequireSameView(t, original, clObserve(t, c))

	// Nodes are copies, providers are shared
	gn, cn := g.GetNode(clTypeD, nil, ""), c.GetNode(clTypeD, nil, "")
	require.NotNil(t, cn)
	assert.NotSame(t, gn, cn)
	assert.Same(t, gn.Provider, cn.Provider)
	cn.Dependencies[0] = graph.NodeKey{}
	cn.Depth = 99
	assert.Equal(t, graph.NodeKey{Type: clTypeC}, gn.Dependencies[0])
	assert.NotEqual(t, 99, gn.Depth)
	c = g.Clone()

	// The clone's sort returns the clone's nodes, not the original's cached ones
	sorted, err := c.TopologicalSort()
	require.NoError(t, err)
	for _, node := range sorted {
		assert.Same(t, c.GetNode(node.Key.Type, node.Key.Key, node.Key.Group), node)
		assert.NotSame(t, g.GetNode(node.Key.Type, node.Key.Key, node.Key.Group), node)
	}

	// Mutating the clone: remove a group member, replace C, add a new node
	c.RemoveProvider(clTypeM, "m1", "g")
	require.NoError(t, c.AddProvider(clProvider(clTypeC)))
	type extra struct{}
	require.NoError(t, c.AddProvider(clProvider(reflect.TypeOf(extra{}), clTypeD)))
	c.CalculateDepths()
	clRequireSameView(t, original, clObserve(t, g))
	assert.Equal(t, original.Size, c.Size(), "one removed, one added")
	assert.Empty(t, c.GetDependencies(clTypeC, nil, ""))
	assert.NotContains(t, c.GetTransitiveDependencies(clTypeD, nil, ""), graph.NodeKey{Type: clTypeA, Key: "k"})

	// Mutating the original does not show in an earlier clone
	c2 := g.Clone()
	before := clObserve(t, c2)
	g.RemoveProvider(clTypeB, nil, "")
	g.Clear()
	clRequireSameView(t, before, clObserve(t, c2))
	clRequireSameView(t, original, before)
	assert.Equal(t, 0, g.Size())
}

func TestClone_RejectedAddOnCloneLeavesBothIntact(t *testing.T) {
	g := clBuild(t)
	original := clObserve(t, g)
	c := g.Clone()

	// A -> D closes a cycle: rejected, the clone is rolled back on its own state
	err := c.AddProvider(clProvider(clTypeA, clTypeD))
	var cycleErr *graph.CircularDependencyError
	require.ErrorAs(t, err, &cycleErr)

	clRequireSameView(t, original, clObserve(t, c))
	clRequireSameView(t, original, clObserve(t, g))

	// The same add is still judged on its own merits in the original
	require.ErrorAs(t, g.AddProvider(clProvider(clTypeA, clTypeD)), &cycleErr)
	clRequireSameView(t, original, clObserve(t, g))
}

func TestClone_CarriesPendingDeferredAdds(t *testing.T) {
	g := graph.NewDependencyGraph()
	require.NoError(t, g.AddProviderDeferred(&godi.Descriptor{
		Type:         clTypeD,
		Dependencies: []*reflection.Dependency{{Type: clTypeM, Group: "g"}},
	}))
	require.NoError(t, g.AddProviderDeferred(&godi.Descriptor{Type: clTypeM, Key: "m1", Group: "g",
		Dependencies: []*reflection.Dependency{{Type: clTypeA}}}))
	require.NoError(t, g.AddProviderDeferred(clProvider(clTypeA)))

	// Cloned before the documented completion step; each graph completes itself
	c := g.Clone()
	require.NoError(t, c.DetectCycles())
	assert.Contains(t, c.GetTransitiveDependencies(clTypeD, nil, ""), graph.NodeKey{Type: clTypeA})

	require.NoError(t, g.DetectCycles())
	clRequireSameView(t, clObserve(t, g), clObserve(t, c))

	// A cycle that exists only in the clone is found only there, and a cached
	// "acyclic" verdict of the original is not inherited
	require.True(t, g.IsAcyclic())
	c = g.Clone()
	require.NoError(t, c.AddProviderDeferred(clProvider(clTypeA, clTypeD)))
	assert.Error(t, c.DetectCycles())
	assert.False(t, c.IsAcyclic())
	assert.True(t, g.IsAcyclic())
	_, err := c.TopologicalSort()
	assert.Error(t, err)
	_, err = g.TopologicalSort()
	assert.NoError(t, err)

	// ... and a clone of a cyclic graph is cyclic without inheriting the verdict cache
	cc := c.Clone()
	assert.False(t, cc.IsAcyclic())
	cc.RemoveProvider(clTypeA, nil, "")
	assert.True(t, cc.IsAcyclic())
	assert.False(t, c.IsAcyclic())
}

func TestClone_Empty(t *testing.T) {
	c := graph.NewDependencyGraph().Clone()
	require.NotNil(t, c)
	assert.Equal(t, 0, c.Size())
	assert.True(t, c.IsAcyclic())
	require.NoError(t, c.AddProvider(clProvider(clTypeA)))
	assert.Equal(t, 1, c.Size())
}

func TestClone_ConcurrentWithMutation(t *testing.T) {
	const n = 10
	types := make([]reflect.Type, n)
	for i := range types {
		types[i] = reflect.ArrayOf(i+1, clTypeA)
	}

	g := graph.NewDependencyGraph()
	require.NoError(t, g.AddProvider(clProvider(types[0])))

	var wg sync.WaitGroup
	wg.Add(1)
	go func() {
		defer wg.Done()
		for round := 0; round < 20; round++ {
			for i := 1; i < n; i++ {
				assert.NoError(t, g.AddProvider(clProvider(types[i], types[i-1])))
			}
			g.CalculateDepths()
			for i := n - 1; i >= 1; i-- {
				g.RemoveProvider(types[i], nil, "")
			}
		}
	}()

	for r := 0; r < 4; r++ {
		wg.Add(1)
		go func() {
			defer wg.Done()
			for i := 0; i < 200; i++ {
				c := g.Clone()

				// Every clone is a consistent snapshot: a chain types[k] -> ... -> types[0]
				size := c.Size()
				sorted, err := c.TopologicalSort()
				if assert.NoError(t, err) && assert.Len(t, sorted, size) {
					for idx, node := range sorted {
						assert.Equal(t, types[idx], node.Key.Type)
					}
				}

				// The clone is private to this goroutine and freely mutable
				c.RemoveProvider(types[0], nil, "")
				assert.NoError(t, c.AddProvider(clProvider(types[0])))
				assert.Equal(t, size, c.Size())
			}
		}()
	}
	wg.Wait()

	assert.Equal(t, 1, g.Size())
}
