package godi

import (
	"context"
	"reflect"
	"sync"
	"testing"

	"github.com/stretchr/testify/require"
)

type lookupRepo struct{ name string }

type lookupStore interface{ Name() string }

func (r *lookupRepo) Name() string { return r.name }

type lookupParams struct {
	In
	Repo     *lookupRepo
	Named    *lookupRepo   `name:"replica"`
	Optional *TDependency  `optional:"true"`
	Plugins  []*lookupRepo `group:"plugins"`
	Ctx      context.Context
}

type lookupService struct{ params lookupParams }

func newLookupService(params lookupParams) *lookupService {
	return &lookupService{params: params}
}

func newLookupRepo(name string) func() *lookupRepo {
	return func() *lookupRepo { return &lookupRepo{name: name} }
}

func TestLookup_DescribesRegistrations(t *testing.T) {
	c := NewCollection()
	require.NoError(t, c.AddSingleton(newLookupRepo("main")))
	require.NoError(t, c.AddTransient(newLookupRepo("replica"), Name("replica")))
	require.NoError(t, c.AddSingleton(newLookupRepo("p1"), Group("plugins")))
	require.NoError(t, c.AddTransient(newLookupRepo("p2"), Group("plugins")))
	require.NoError(t, c.AddSingleton(newLookupRepo("store"), Name("store"), As[lookupStore]()))
	require.NoError(t, c.AddSingleton(&TService{ID: "instance"}))
	require.NoError(t, c.AddScoped(newLookupService))

	p, err := c.Build()
	require.NoError(t, err)
	defer p.Close()

	repoType := PtrTypeOf[lookupRepo]()

	reg, err := Lookup(p, repoType, nil)
	require.NoError(t, err)
	require.Equal(t, repoType, reg.Type)
	require.Nil(t, reg.Key)
	require.Empty(t, reg.Group)
	require.Equal(t, Singleton, reg.Lifetime)
	require.False(t, reg.IsInstance)
	require.Equal(t, reflect.Func, reg.ConstructorType.Kind())
	require.NotNil(t, reg.Dependencies)
	require.Empty(t, reg.Dependencies)

	reg, err = Lookup(p, repoType, "replica")
	require.NoError(t, err)
	require.Equal(t, "replica", reg.Key)
	require.Equal(t, Transient, reg.Lifetime)

	// An alias is registered under the interface only, with its key
	reg, err = Lookup(p, TypeOf[lookupStore](), "store")
	require.NoError(t, err)
	require.Equal(t, TypeOf[lookupStore](), reg.Type)
	require.Equal(t, Singleton, reg.Lifetime)
	_, err = Lookup(p, repoType, "store")
	require.ErrorIs(t, err, ErrServiceNotFound)
	_, err = Lookup(p, TypeOf[lookupStore](), nil)
	require.ErrorIs(t, err, ErrServiceNotFound)

	reg, err = Lookup(p, PtrTypeOf[TService](), nil)
	require.NoError(t, err)
	require.True(t, reg.IsInstance)
	require.Equal(t, PtrTypeOf[TService](), reg.ConstructorType)

	// Parameter object: one dependency per field, with key, group and optional
	reg, err = Lookup(p, PtrTypeOf[lookupService](), nil)
	require.NoError(t, err)
	require.Equal(t, Scoped, reg.Lifetime)
	require.ElementsMatch(t, []RegistrationDependency{
		{Type: repoType},
		{Type: repoType, Key: "replica"},
		{Type: PtrTypeOf[TDependency](), Optional: true},
		{Type: reflect.TypeOf([]*lookupRepo(nil)), Group: "plugins"},
		{Type: TypeOf[context.Context]()},
	}, normalizeLookupDeps(reg.Dependencies))

	// Groups: registration order, internal member keys hidden
	members, err := LookupGroup(p, repoType, "plugins")
	require.NoError(t, err)
	require.Len(t, members, 2)
	require.Equal(t, Singleton, members[0].Lifetime)
	require.Equal(t, Transient, members[1].Lifetime)
	for _, member := range members {
		require.Equal(t, "plugins", member.Group)
		require.Nil(t, member.Key)
	}

	empty, err := LookupGroup(p, repoType, "nothing")
	require.NoError(t, err)
	require.NotNil(t, empty)
	require.Empty(t, empty)

	// Group members and built-in services are not plain registrations
	_, err = Lookup(p, repoType, 1)
	require.ErrorIs(t, err, ErrServiceNotFound)
	_, err = Lookup(p, TypeOf[Scope](), nil)
	require.ErrorIs(t, err, ErrServiceNotFound)
	var resolutionErr *ResolutionError
	require.ErrorAs(t, err, &resolutionErr)
	require.Equal(t, TypeOf[Scope](), resolutionErr.ServiceType)

	// Nothing was constructed by looking: the scope resolves as usual
	s, err := p.CreateScope(context.Background())
	require.NoError(t, err)
	defer s.Close()
	fromScope, err := Lookup(s, PtrTypeOf[lookupService](), nil)
	require.NoError(t, err)
	require.Equal(t, reg, fromScope)
	svc, err := Resolve[*lookupService](s)
	require.NoError(t, err)
	require.Equal(t, "main", svc.params.Repo.name)
	require.Equal(t, "replica", svc.params.Named.name)
	require.Len(t, svc.params.Plugins, 2)
}

// normalizeLookupDeps maps the element type of a group dependency to the slice
// type when the analyzer reports the element type, so that the test does not
// depend on that representation.
func normalizeLookupDeps(deps []RegistrationDependency) []RegistrationDependency {
	out := make([]RegistrationDependency, len(deps))
	copy(out, deps)
	for i := range out {
		if out[i].Group != "" && out[i].Type.Kind() != reflect.Slice {
			out[i].Type = reflect.SliceOf(out[i].Type)
		}
	}
	return out
}

func TestLookup_ResultIsACopy(t *testing.T) {
	c := NewCollection()
	require.NoError(t, c.AddSingleton(newLookupRepo("main")))
	require.NoError(t, c.AddScoped(func(r *lookupRepo) *lookupService {
		return &lookupService{params: lookupParams{Repo: r}}
	}))

	p, err := c.Build()
	require.NoError(t, err)
	defer p.Close()

	serviceType := PtrTypeOf[lookupService]()
	reg, err := Lookup(p, serviceType, nil)
	require.NoError(t, err)
	require.Len(t, reg.Dependencies, 1)

	// Vandalize the copy
	reg.Lifetime = Transient
	reg.Dependencies[0].Type = PtrTypeOf[TService]()
	reg.Dependencies[0].Key = "nope"
	_ = append(reg.Dependencies[:0], RegistrationDependency{})

	again, err := Lookup(p, serviceType, nil)
	require.NoError(t, err)
	require.Equal(t, Scoped, again.Lifetime)
	require.Equal(t, []RegistrationDependency{{Type: PtrTypeOf[lookupRepo]()}}, again.Dependencies)

	// The provider and the collection still see the real dependency
	s, err := p.CreateScope(context.Background())
	require.NoError(t, err)
	defer s.Close()
	first, err := Resolve[*lookupService](s)
	require.NoError(t, err)
	second, err := Resolve[*lookupService](s)
	require.NoError(t, err)
	require.Same(t, first, second)
	require.Equal(t, "main", first.params.Repo.name)

	p2, err := c.Build()
	require.NoError(t, err)
	require.NoError(t, p2.Close())
}

func TestLookup_SnapshotPerBuild(t *testing.T) {
	c := NewCollection()
	require.NoError(t, c.AddSingleton(newLookupRepo("main")))
	require.NoError(t, c.AddSingleton(newLookupRepo("p1"), Group("plugins")))

	p1, err := c.Build()
	require.NoError(t, err)
	defer p1.Close()

	repoType := PtrTypeOf[lookupRepo]()
	c.Remove(repoType)
	require.NoError(t, c.AddScoped(newLookupRepo("main2")))
	require.NoError(t, c.AddSingleton(newLookupRepo("p2"), Group("plugins")))

	p2, err := c.Build()
	require.NoError(t, err)
	defer p2.Close()

	reg, err := Lookup(p1, repoType, nil)
	require.NoError(t, err)
	require.Equal(t, Singleton, reg.Lifetime)
	members, err := LookupGroup(p1, repoType, "plugins")
	require.NoError(t, err)
	require.Len(t, members, 1)

	reg, err = Lookup(p2, repoType, nil)
	require.NoError(t, err)
	require.Equal(t, Scoped, reg.Lifetime)
	members, err = LookupGroup(p2, repoType, "plugins")
	require.NoError(t, err)
	require.Len(t, members, 2)
}

func TestLookup_ValidationAndDisposed(t *testing.T) {
	c := NewCollection()
	require.NoError(t, c.AddSingleton(newLookupRepo("main")))
	p, err := c.Build()
	require.NoError(t, err)

	repoType := PtrTypeOf[lookupRepo]()

	_, err = Lookup(nil, repoType, nil)
	require.ErrorIs(t, err, ErrProviderNil)
	_, err = Lookup(p, nil, nil)
	require.ErrorIs(t, err, ErrServiceTypeNil)
	_, err = LookupGroup(nil, repoType, "g")
	require.ErrorIs(t, err, ErrProviderNil)
	_, err = LookupGroup(p, nil, "g")
	require.ErrorIs(t, err, ErrServiceTypeNil)
	_, err = LookupGroup(p, repoType, "")
	require.ErrorIs(t, err, ErrGroupNameEmpty)

	s, err := p.CreateScope(context.Background())
	require.NoError(t, err)
	require.NoError(t, s.Close())

	_, err = Lookup(s, repoType, nil)
	require.ErrorIs(t, err, ErrScopeDisposed)
	_, err = LookupGroup(s, repoType, "g")
	require.ErrorIs(t, err, ErrScopeDisposed)

	// The provider is still usable after one of its scopes was closed
	_, err = Lookup(p, repoType, nil)
	require.NoError(t, err)

	require.NoError(t, p.Close())
	_, err = Lookup(p, repoType, nil)
	require.ErrorIs(t, err, ErrProviderDisposed)
	_, err = LookupGroup(p, repoType, "g")
	require.ErrorIs(t, err, ErrProviderDisposed)
}

func TestLookup_Concurrent(t *testing.T) {
	c := NewCollection()
	require.NoError(t, c.AddSingleton(newLookupRepo("main")))
	require.NoError(t, c.AddScoped(func(r *lookupRepo) *lookupService {
		return &lookupService{params: lookupParams{Repo: r}}
	}))
	p, err := c.Build()
	require.NoError(t, err)
	defer p.Close()

	var wg sync.WaitGroup
	for i := 0; i < 8; i++ {
		wg.Add(1)
		go func() {
			defer wg.Done()
			s, err := p.CreateScope(context.Background())
			if err != nil {
				t.Error(err)
				return
			}
			defer s.Close()

			for j := 0; j < 50; j++ {
				reg, err := Lookup(s, PtrTypeOf[lookupService](), nil)
				if err != nil || len(reg.Dependencies) != 1 {
					t.Errorf("unexpected: %v %v", reg, err)
					return
				}
				// Each caller owns its copy
				reg.Dependencies[0].Optional = true
				if _, err := Resolve[*lookupService](s); err != nil {
					t.Error(err)
					return
				}
			}
		}()
	}
	wg.Wait()
}
