package godi

import (
	"context"
	"reflect"
	"sync"
	"sync/atomic"
	"testing"

	"github.com/stretchr/testify/assert"
	"github.com/stretchr/testify/require"

	"github.com/junioryono/godi/v4/internal/graph"
	"github.com/junioryono/godi/v4/internal/reflection"
)

type (
	whyDB      struct{ name string }
	whyCache   struct{ db *whyDB }
	whyService struct{ db *whyDB }
	whyHandler struct {
		svc   *whyService
		cache *whyCache
	}
	whyWorker struct{ db *whyDB }
	whyLonely struct{}
	whyAudit  struct{ replica *whyDB }

	whyRoute  interface{ Path() string }
	whyRouteA struct{ db *whyDB }
	whyRouteB struct{}
	whyRouter struct{ routes []whyRoute }

	whyRouterParams struct {
		In
		Routes []whyRoute `group:"routes"`
	}
	whyAuditParams struct {
		In
		Replica *whyDB `name:"replica"`
	}
	whyRequestInfo struct{ ctx context.Context }
)

func (*whyRouteA) Path() string { return "/a" }
func (*whyRouteB) Path() string { return "/b" }

func typeOf[T any]() reflect.Type { return reflect.TypeOf((*T)(nil)).Elem() }

func whyProvider(t *testing.T, transients *atomic.Int32) Provider {
	t.Helper()
	c := NewCollection()
	// Registered consumers first: the answer must not depend on call order
	require.NoError(t, c.AddScoped(func(s *whyService, ca *whyCache) *whyHandler { return &whyHandler{s, ca} }))
	require.NoError(t, c.AddTransient(func(db *whyDB) *whyWorker { transients.Add(1); return &whyWorker{db} }))
	require.NoError(t, c.AddSingleton(func(db *whyDB) *whyService { return &whyService{db} }))
	require.NoError(t, c.AddSingleton(func(db *whyDB) *whyCache { return &whyCache{db} }))
	require.NoError(t, c.AddSingleton(func() *whyDB { return &whyDB{"primary"} }))
	require.NoError(t, c.AddSingleton(func() *whyDB { return &whyDB{"replica"} }, Name("replica")))
	require.NoError(t, c.AddSingleton(func(p whyAuditParams) *whyAudit { return &whyAudit{p.Replica} }))
	require.NoError(t, c.AddSingleton(func() *whyLonely { return &whyLonely{} }))
	require.NoError(t, c.AddSingleton(func(db *whyDB) whyRoute { return &whyRouteA{db} }, Group("routes")))
	require.NoError(t, c.AddSingleton(func() whyRoute { return &whyRouteB{} }, Group("routes")))
	require.NoError(t, c.AddSingleton(func(p whyRouterParams) *whyRouter { return &whyRouter{p.Routes} }))
	require.NoError(t, c.AddScoped(func(ctx context.Context) *whyRequestInfo { return &whyRequestInfo{ctx} }))

	p, err := c.Build()
	require.NoError(t, err)
	t.Cleanup(func() { _ = p.Close() })
	return p
}

func chainStrings(chains []DependencyChain) []string {
	out := make([]string, len(chains))
	for i, chain := range chains {
		out[i] = chain.String()
	}
	return out
}

func TestWhy_ShortestChainPerTopLevelConsumer(t *testing.T) {
	var transients atomic.Int32
	p := whyProvider(t, &transients)

	chains, err := Why(p, typeOf[*whyDB]())
	require.NoError(t, err)

	// *whyHandler reaches the database through two chains of equal length: the
	// tie is broken deterministically. The router reaches it through a group.
	assert.Equal(t, []string{
		"*whyHandler -> *whyCache -> *whyDB",
		"*whyRouter -> whyRoute [routes] -> whyRoute:1 [routes] -> *whyDB",
		"*whyWorker -> *whyDB",
	}, chainStrings(chains))

	// Every link is a real dependency according to the graph
	root := p.(*provider)
	for _, chain := range chains {
		for i := 0; i+1 < len(chain); i++ {
			deps := root.graph.GetDependencies(chain[i].Type, chain[i].Key, chain[i].Group)
			assert.Contains(t, deps, graph.NodeKey{Type: chain[i+1].Type, Key: chain[i+1].Key, Group: chain[i+1].Group})
		}
	}

	// Same answer again, from a scope too, and nothing was constructed
	s, err := p.CreateScope(context.Background())
	require.NoError(t, err)
	defer s.Close()
	again, err := Why(s, typeOf[*whyDB]())
	require.NoError(t, err)
	assert.Equal(t, chains, again)
	assert.Equal(t, int32(0), transients.Load())

	// The result is the caller's: changing it does not affect later answers
	chains[0][0] = ServiceRef{}
	again, err = Why(p, typeOf[*whyDB]())
	require.NoError(t, err)
	assert.Equal(t, "*whyHandler -> *whyCache -> *whyDB", again[0].String())
}

func TestWhy_KeysRootsAndBuiltins(t *testing.T) {
	var transients atomic.Int32
	p := whyProvider(t, &transients)

	// The keyed database is a different service from the plain one
	chains, err := WhyKeyed(p, typeOf[*whyDB](), "replica")
	require.NoError(t, err)
	assert.Equal(t, []string{"*whyAudit -> *whyDB:replica"}, chainStrings(chains))

	_, err = WhyKeyed(p, typeOf[*whyDB](), "missing")
	assert.ErrorIs(t, err, ErrServiceNotFound)
	_, err = WhyKeyed(p, typeOf[*whyDB](), nil)
	assert.ErrorIs(t, err, ErrServiceKeyNil)

	// Nothing depends on it: it is its own consumer
	chains, err = Why(p, typeOf[*whyLonely]())
	require.NoError(t, err)
	require.Len(t, chains, 1)
	assert.Equal(t, DependencyChain{{Type: typeOf[*whyLonely]()}}, chains[0])

	chains, err = Why(p, typeOf[*whyHandler]())
	require.NoError(t, err)
	assert.Equal(t, []string{"*whyHandler"}, chainStrings(chains))

	// Built-in services are explained too; unused ones have no chain
	chains, err = Why(p, typeOf[context.Context]())
	require.NoError(t, err)
	assert.Equal(t, []string{"*whyRequestInfo -> Context"}, chainStrings(chains))
	chains, err = Why(p, typeOf[Scope]())
	require.NoError(t, err)
	assert.Empty(t, chains)
}

func TestWhy_Errors(t *testing.T) {
	var transients atomic.Int32
	p := whyProvider(t, &transients)

	_, err := Why(nil, typeOf[*whyDB]())
	assert.ErrorIs(t, err, ErrProviderNil)
	_, err = Why((*scope)(nil), typeOf[*whyDB]())
	assert.ErrorIs(t, err, ErrProviderNil)
	_, err = Why(p, nil)
	assert.ErrorIs(t, err, ErrServiceTypeNil)

	_, err = Why(p, typeOf[*TService]())
	var resolutionErr *ResolutionError
	require.ErrorAs(t, err, &resolutionErr)
	assert.ErrorIs(t, err, ErrServiceNotFound)

	// A group member is not resolvable by its bare type, so it is not found either
	_, err = Why(p, typeOf[whyRoute]())
	assert.ErrorIs(t, err, ErrServiceNotFound)

	s, err := p.CreateScope(context.Background())
	require.NoError(t, err)
	require.NoError(t, s.Close())
	_, err = Why(s, typeOf[*whyDB]())
	assert.ErrorIs(t, err, ErrScopeDisposed)

	live, err := p.CreateScope(context.Background())
	require.NoError(t, err)
	require.NoError(t, p.Close())
	_, err = Why(p, typeOf[*whyDB]())
	assert.ErrorIs(t, err, ErrProviderDisposed)
	_, err = Why(live, typeOf[*whyDB]())
	assert.Error(t, err) // closed with the provider
}

func TestWhy_ConcurrentWithResolution(t *testing.T) {
	var transients atomic.Int32
	p := whyProvider(t, &transients)
	want, err := Why(p, typeOf[*whyDB]())
	require.NoError(t, err)

	var wg sync.WaitGroup
	for i := 0; i < 8; i++ {
		wg.Add(1)
		go func() {
			defer wg.Done()
			for j := 0; j < 50; j++ {
				got, err := Why(p, typeOf[*whyDB]())
				assert.NoError(t, err)
				assert.Equal(t, want, got)

				s, err := p.CreateScope(context.Background())
				assert.NoError(t, err)
				_, err = Resolve[*whyHandler](s)
				assert.NoError(t, err)
				assert.NoError(t, s.Close())
			}
		}()
	}
	wg.Wait()
}

// whyNode is a minimal graph provider for the graph-level checks.
type whyNode struct {
	t    reflect.Type
	deps []reflect.Type
}

func (n whyNode) GetType() reflect.Type { return n.t }
func (n whyNode) GetKey() any           { return nil }
func (n whyNode) GetGroup() string      { return "" }
func (n whyNode) GetDependencies() []*reflection.Dependency {
	deps := make([]*reflection.Dependency, len(n.deps))
	for i, d := range n.deps {
		deps[i] = &reflection.Dependency{Type: d}
	}
	return deps
}

func TestGraphChainsTo_NeverStale(t *testing.T) {
	a, b, c := typeOf[*whyHandler](), typeOf[*whyService](), typeOf[*whyDB]()
	key := func(types ...reflect.Type) []graph.NodeKey {
		keys := make([]graph.NodeKey, len(types))
		for i, typ := range types {
			keys[i] = graph.NodeKey{Type: typ}
		}
		return keys
	}

	g := graph.NewDependencyGraph()
	assert.Nil(t, g.ChainsTo(c, nil, ""))

	// Deferred adds are visible without a cycle check
	require.NoError(t, g.AddProviderDeferred(whyNode{t: a, deps: []reflect.Type{b}}))
	require.NoError(t, g.AddProviderDeferred(whyNode{t: b, deps: []reflect.Type{c}}))
	assert.Equal(t, [][]graph.NodeKey{key(a, b, c)}, g.ChainsTo(c, nil, ""))
	assert.Equal(t, [][]graph.NodeKey{key(a)}, g.ChainsTo(a, nil, ""))

	// Replacing a provider replaces its edges
	require.NoError(t, g.AddProviderDeferred(whyNode{t: b}))
	assert.Equal(t, [][]graph.NodeKey{key(c)}, g.ChainsTo(c, nil, ""))
	assert.Equal(t, [][]graph.NodeKey{key(a, b)}, g.ChainsTo(b, nil, ""))

	// A shorter chain wins over a longer one
	require.NoError(t, g.AddProvider(whyNode{t: b, deps: []reflect.Type{c}}))
	require.NoError(t, g.AddProvider(whyNode{t: a, deps: []reflect.Type{b, c}}))
	assert.Equal(t, [][]graph.NodeKey{key(a, c)}, g.ChainsTo(c, nil, ""))

	// Removal and a rejected (cyclic) add leave no trace
	require.Error(t, g.AddProvider(whyNode{t: c, deps: []reflect.Type{a}}))
	assert.Equal(t, [][]graph.NodeKey{key(a, c)}, g.ChainsTo(c, nil, ""))
	g.RemoveProvider(a, nil, "")
	assert.Equal(t, [][]graph.NodeKey{key(b, c)}, g.ChainsTo(c, nil, ""))

	// In a cycle nobody is a top-level consumer; the search still terminates
	require.NoError(t, g.AddProviderDeferred(whyNode{t: c, deps: []reflect.Type{b}}))
	assert.Empty(t, g.ChainsTo(c, nil, ""))

	g.Clear()
	assert.Nil(t, g.ChainsTo(c, nil, ""))
}
