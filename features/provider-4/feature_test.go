package godi

import (
	"context"
	"sync"
	"sync/atomic"
	"testing"

	"github.com/stretchr/testify/assert"
	"github.com/stretchr/testify/require"
)

func findInfo(t *testing.T, infos []ServiceInfo, typ any, key any, group string) ServiceInfo {
	t.Helper()
	for _, info := range infos {
		if info.Type == typ && info.Key == key && info.Group == group {
			return info
		}
	}
	require.Failf(t, "registration not described", "%v key=%v group=%q in %+v", typ, key, group, infos)
	return ServiceInfo{}
}

func TestDescribe(t *testing.T) {
	t.Parallel()

	t.Run("lists_registrations_in_order", func(t *testing.T) {
		t.Parallel()
		c := NewCollection()
		require.NoError(t, c.AddSingleton(NewTServiceWithID("plain")))
		require.NoError(t, c.AddSingleton(NewTServiceWithID("gone"), Name("gone")))
		require.NoError(t, c.AddSingleton(NewTServiceWithID("named"), Name("named")))
		require.NoError(t, c.AddTransient(NewTServiceWithID("m1"), Group("services")))
		require.NoError(t, c.AddScoped(NewTDependency))
		require.NoError(t, c.AddTransient(NewTServiceWithID("m2"), Group("services")))
		require.NoError(t, c.AddScoped(NewTFromParams))
		require.NoError(t, c.AddSingleton(NewTServiceWithID("alias"), As[TInterface]()))
		require.NoError(t, c.AddScoped(func(*TService) {}))
		c.RemoveKeyed(PtrTypeOf[TService](), "gone")
		require.Equal(t, 8, c.Count())

		p, err := c.Build()
		require.NoError(t, err)
		defer p.Close()

		infos, err := Describe(p)
		require.NoError(t, err)
		require.Len(t, infos, c.Count())

		svc, dep := PtrTypeOf[TService](), PtrTypeOf[TDependency]()
		type identity struct {
			Type     any
			Key      any
			Group    string
			Lifetime Lifetime
		}
		got := make([]identity, 0, len(infos))
		for _, info := range infos[:7] {
			got = append(got, identity{info.Type, info.Key, info.Group, info.Lifetime})
		}
		assert.Equal(t, []identity{
			{svc, nil, "", Singleton},
			{svc, "named", "", Singleton},
			{svc, nil, "services", Transient},
			{dep, nil, "", Scoped},
			{svc, nil, "services", Transient},
			{PtrTypeOf[TServiceWithDeps](), nil, "", Scoped},
			{TypeOf[TInterface](), nil, "", Singleton},
		}, got)

		// The initialization function
		assert.Equal(t, TypeOf[struct{}](), infos[7].Type)
		assert.Equal(t, Scoped, infos[7].Lifetime)
		assert.Equal(t, []DependencyInfo{{Type: svc}}, infos[7].Dependencies)

		// Dependencies of the parameter object, in field order
		assert.Equal(t, []DependencyInfo{
			{Type: svc},
			{Type: dep, Optional: true},
			{Type: svc, Key: "named"},
			{Type: svc, Group: "services"},
			{Type: TypeOf[TInterface](), Optional: true},
		}, infos[5].Dependencies)
		assert.Empty(t, infos[0].Dependencies)

		// Later changes of the collection do not reach the built provider
		c.Remove(svc)
		require.NoError(t, c.AddSingleton(NewTDisposable))
		again, err := Describe(p)
		require.NoError(t, err)
		assert.Equal(t, infos, again)
	})

	t.Run("instantiated_follows_lifetimes_and_nothing_is_constructed", func(t *testing.T) {
		t.Parallel()
		var calls atomic.Int32
		count := func(id string) func() *TService {
			return func() *TService { calls.Add(1); return &TService{ID: id} }
		}
		p := BuildProvider(t,
			AddSingleton(count("singleton")),
			AddScoped(count("scoped"), Name("scoped")),
			AddTransient(count("transient"), Name("transient")),
			AddScoped(count("member"), Group("g")),
			AddSingleton(&TDependency{Name: "instance"}),
		)
		s1, err := p.CreateScope(context.Background())
		require.NoError(t, err)
		s2, err := p.CreateScope(context.Background())
		require.NoError(t, err)
		child, err := s1.CreateScope(context.Background())
		require.NoError(t, err)
		require.EqualValues(t, 1, calls.Load())

		svc := PtrTypeOf[TService]()
		state := func(p Provider) [5]bool {
			infos, err := Describe(p)
			require.NoError(t, err)
			return [5]bool{
				findInfo(t, infos, svc, nil, "").Instantiated,
				findInfo(t, infos, svc, "scoped", "").Instantiated,
				findInfo(t, infos, svc, "transient", "").Instantiated,
				findInfo(t, infos, svc, nil, "g").Instantiated,
				findInfo(t, infos, PtrTypeOf[TDependency](), nil, "").Instantiated,
			}
		}

		for _, target := range []Provider{p, s1, s2, child} {
			assert.Equal(t, [5]bool{true, false, false, false, true}, state(target))
		}
		require.EqualValues(t, 1, calls.Load(), "Describe must not construct")

		RequireResolveKeyed[*TService](t, s1, "scoped")
		RequireResolveKeyed[*TService](t, s1, "transient")
		assert.Equal(t, [5]bool{true, true, false, false, true}, state(s1))
		assert.Equal(t, [5]bool{true, false, false, false, true}, state(s2))
		assert.Equal(t, [5]bool{true, false, false, false, true}, state(child))
		assert.Equal(t, [5]bool{true, false, false, false, true}, state(p))

		_, err = ResolveGroup[*TService](child, "g")
		require.NoError(t, err)
		assert.Equal(t, [5]bool{true, false, false, true, true}, state(child))
		assert.Equal(t, [5]bool{true, true, false, false, true}, state(s1))

		// The provider describes its own root scope
		RequireResolveKeyed[*TService](t, p, "scoped")
		assert.Equal(t, [5]bool{true, true, false, false, true}, state(p))
		assert.Equal(t, [5]bool{true, false, false, false, true}, state(s2))

		// A second provider built from the same registrations has its own state
		c := NewCollection()
		require.NoError(t, c.AddScoped(NewTScoped))
		p1, err := c.Build()
		require.NoError(t, err)
		defer p1.Close()
		p2, err := c.Build()
		require.NoError(t, err)
		defer p2.Close()
		RequireResolve[*TScoped](t, p1)
		i1, err := Describe(p1)
		require.NoError(t, err)
		i2, err := Describe(p2)
		require.NoError(t, err)
		assert.True(t, i1[0].Instantiated)
		assert.False(t, i2[0].Instantiated)
	})

	t.Run("snapshot_is_deep", func(t *testing.T) {
		t.Parallel()
		s := BuildScope(t,
			AddSingleton(NewTService),
			AddSingleton(NewTDependency),
			AddScoped(NewTServiceWithDeps),
		)

		infos, err := Describe(s)
		require.NoError(t, err)
		require.Len(t, infos[2].Dependencies, 2)
		infos[2].Dependencies[0] = DependencyInfo{Type: PtrTypeOf[TDisposable](), Key: "x"}
		infos[2].Dependencies = append(infos[2].Dependencies[:1], DependencyInfo{})
		infos[0] = ServiceInfo{}
		infos[1].Lifetime = Transient

		again, err := Describe(s)
		require.NoError(t, err)
		assert.Equal(t, PtrTypeOf[TService](), again[0].Type)
		assert.Equal(t, Singleton, again[1].Lifetime)
		assert.Equal(t, []DependencyInfo{{Type: PtrTypeOf[TService]()}, {Type: PtrTypeOf[TDependency]()}}, again[2].Dependencies)

		// ... and resolution is unaffected
		withDeps := RequireResolveFrom[*TServiceWithDeps](t, s)
		assert.Same(t, RequireResolveFrom[*TService](t, s), withDeps.Svc)
		assert.Same(t, RequireResolveFrom[*TDependency](t, s), withDeps.Dep)
	})

	t.Run("disposed", func(t *testing.T) {
		t.Parallel()
		c := NewCollection()
		require.NoError(t, c.AddScoped(NewTService))
		p, err := c.Build()
		require.NoError(t, err)
		s, err := p.CreateScope(context.Background())
		require.NoError(t, err)
		child, err := s.CreateScope(context.Background())
		require.NoError(t, err)

		require.NoError(t, s.Close())
		_, err = Describe(s)
		assert.ErrorIs(t, err, ErrScopeDisposed)
		_, err = Describe(child)
		assert.ErrorIs(t, err, ErrScopeDisposed)
		_, err = Describe(p)
		assert.NoError(t, err)

		require.NoError(t, p.Close())
		_, err = Describe(p)
		assert.ErrorIs(t, err, ErrProviderDisposed)

		_, err = Describe(nil)
		assert.ErrorIs(t, err, ErrProviderNil)

		var validationErr *ValidationError
		_, err = Describe(struct{ Provider }{p})
		assert.ErrorAs(t, err, &validationErr)
	})

	t.Run("concurrent_with_resolution_and_close", func(t *testing.T) {
		t.Parallel()
		p := BuildProvider(t,
			AddSingleton(NewTService),
			AddScoped(NewTDisposable),
			AddTransient(NewTTransient),
		)
		s, err := p.CreateScope(context.Background())
		require.NoError(t, err)

		var wg sync.WaitGroup
		for i := 0; i < 8; i++ {
			wg.Add(1)
			go func(i int) {
				defer wg.Done()
				for j := 0; j < 50; j++ {
					if i == 0 && j == 25 {
						assert.NoError(t, s.Close())
					}
					if i%2 == 0 {
						_, _ = Resolve[*TDisposable](s)
						_, _ = Resolve[*TTransient](s)
						continue
					}

					infos, err := Describe(s)
					if err != nil {
						assert.ErrorIs(t, err, ErrScopeDisposed)
						continue
					}
					if assert.Len(t, infos, 3) {
						assert.True(t, infos[0].Instantiated)
						assert.False(t, infos[2].Instantiated)
					}
				}
			}(i)
		}
		wg.Wait()
	})
}
