package godi

import (
	"context"
	"errors"
	"sync"
	"sync/atomic"
	"testing"

	"github.com/stretchr/testify/assert"
	"github.com/stretchr/testify/require"
)

type (
	cachedSingleton struct{ n int32 }
	cachedScoped    struct{ n int32 }
	cachedTransient struct{ n int32 }
	cachedConsumer  struct{ dep *cachedScoped }
	cachedSecondary struct{ n int32 }
	cachedPrimary   struct{ n int32 }
	cachedFailing   struct{}
)

type cachedFixture struct {
	provider                                      Provider
	singletons, scoped, transients, keyed, multis atomic.Int32
	failing                                       atomic.Int32
}

func newCachedFixture(t *testing.T) *cachedFixture {
	t.Helper()
	f := &cachedFixture{}

	c := NewCollection()
	require.NoError(t, c.AddSingleton(func() *cachedSingleton { return &cachedSingleton{n: f.singletons.Add(1)} }))
	require.NoError(t, c.AddScoped(func() *cachedScoped { return &cachedScoped{n: f.scoped.Add(1)} }))
	require.NoError(t, c.AddScoped(func() *cachedScoped { return &cachedScoped{n: 100 + f.keyed.Add(1)} }, Name("named")))
	require.NoError(t, c.AddTransient(func() *cachedTransient { return &cachedTransient{n: f.transients.Add(1)} }))
	require.NoError(t, c.AddScoped(func(dep *cachedScoped) *cachedConsumer { return &cachedConsumer{dep: dep} }))
	require.NoError(t, c.AddScoped(func() (*cachedPrimary, *cachedSecondary) {
		n := f.multis.Add(1)
		return &cachedPrimary{n: n}, &cachedSecondary{n: n}
	}))
	require.NoError(t, c.AddScoped(func() (*cachedFailing, error) {
		f.failing.Add(1)
		return nil, errors.New("constructor failed")
	}))

	p, err := c.Build()
	require.NoError(t, err)
	f.provider = p
	t.Cleanup(func() { _ = p.Close() })
	return f
}

func TestScopeGetCached(t *testing.T) {
	t.Run("never constructs and sees exactly what Get returns", func(t *testing.T) {
		f := newCachedFixture(t)
		s, err := f.provider.CreateScope(context.Background())
		require.NoError(t, err)

		// Nothing scoped exists yet, and looking does not create it
		for i := 0; i < 3; i++ {
			v, found, err := ResolveCached[*cachedScoped](s)
			require.NoError(t, err)
			assert.False(t, found)
			assert.Nil(t, v)

			_, found, err = s.(CachedResolver).GetKeyedCached(PtrTypeOf[cachedScoped](), "named")
			require.NoError(t, err)
			assert.False(t, found)

			_, found, err = ResolveCached[*cachedTransient](s)
			require.NoError(t, err)
			assert.False(t, found)
		}
		assert.EqualValues(t, 0, f.scoped.Load())
		assert.EqualValues(t, 0, f.keyed.Load())
		assert.EqualValues(t, 0, f.transients.Load())

		// Singletons exist since Build
		single, found, err := ResolveCached[*cachedSingleton](s)
		require.NoError(t, err)
		require.True(t, found)
		want, err := Resolve[*cachedSingleton](f.provider)
		require.NoError(t, err)
		assert.Same(t, want, single)
		assert.EqualValues(t, 1, f.singletons.Load())

		// Constructed as a dependency: visible, and it is the injected instance
		consumer, err := Resolve[*cachedConsumer](s)
		require.NoError(t, err)
		dep, found, err := ResolveCached[*cachedScoped](s)
		require.NoError(t, err)
		require.True(t, found)
		assert.Same(t, consumer.dep, dep)

		// The unkeyed and the keyed registration are different identities
		_, found, err = s.(CachedResolver).GetKeyedCached(PtrTypeOf[cachedScoped](), "named")
		require.NoError(t, err)
		assert.False(t, found)
		named, err := ResolveKeyed[*cachedScoped](s, "named")
		require.NoError(t, err)
		got, found, err := s.(CachedResolver).GetKeyedCached(PtrTypeOf[cachedScoped](), "named")
		require.NoError(t, err)
		require.True(t, found)
		assert.Same(t, named, got)
		assert.NotSame(t, dep, got)

		// Transients are never cached, however often they were created
		_, err = Resolve[*cachedTransient](s)
		require.NoError(t, err)
		_, found, err = ResolveCached[*cachedTransient](s)
		require.NoError(t, err)
		assert.False(t, found)
		assert.EqualValues(t, 1, f.transients.Load())

		// Secondary output of a multi-return constructor
		_, found, err = ResolveCached[*cachedSecondary](s)
		require.NoError(t, err)
		assert.False(t, found)
		primary, err := Resolve[*cachedPrimary](s)
		require.NoError(t, err)
		secondary, found, err := ResolveCached[*cachedSecondary](s)
		require.NoError(t, err)
		require.True(t, found)
		assert.Equal(t, primary.n, secondary.n)
		resolved, err := Resolve[*cachedSecondary](s)
		require.NoError(t, err)
		assert.Same(t, resolved, secondary)
		assert.EqualValues(t, 1, f.multis.Load())

		assert.EqualValues(t, 1, f.scoped.Load())
		assert.EqualValues(t, 1, f.keyed.Load())
	})

	t.Run("scopes do not see each other's instances", func(t *testing.T) {
		f := newCachedFixture(t)
		parent, err := f.provider.CreateScope(context.Background())
		require.NoError(t, err)
		child, err := parent.CreateScope(nil)
		require.NoError(t, err)
		sibling, err := f.provider.CreateScope(context.Background())
		require.NoError(t, err)

		inParent, err := Resolve[*cachedScoped](parent)
		require.NoError(t, err)

		for _, other := range []Provider{child, sibling, f.provider} {
			_, found, err := ResolveCached[*cachedScoped](other)
			require.NoError(t, err)
			assert.False(t, found)
		}

		inChild, err := Resolve[*cachedScoped](child)
		require.NoError(t, err)
		got, found, err := ResolveCached[*cachedScoped](child)
		require.NoError(t, err)
		require.True(t, found)
		assert.Same(t, inChild, got)
		assert.NotSame(t, inParent, got)

		// The provider answers from its root scope
		inRoot, err := Resolve[*cachedScoped](f.provider)
		require.NoError(t, err)
		got, found, err = ResolveCached[*cachedScoped](f.provider)
		require.NoError(t, err)
		require.True(t, found)
		assert.Same(t, inRoot, got)
		assert.EqualValues(t, 3, f.scoped.Load())
	})

	t.Run("built-in services", func(t *testing.T) {
		f := newCachedFixture(t)
		type ctxKey struct{}
		s, err := f.provider.CreateScope(context.WithValue(context.Background(), ctxKey{}, "v"))
		require.NoError(t, err)

		ctx, found, err := ResolveCached[context.Context](s)
		require.NoError(t, err)
		require.True(t, found)
		assert.Equal(t, s.Context(), ctx)
		assert.Equal(t, "v", ctx.Value(ctxKey{}))

		self, found, err := ResolveCached[Scope](s)
		require.NoError(t, err)
		require.True(t, found)
		assert.Same(t, s, self)

		root, found, err := ResolveCached[Provider](s)
		require.NoError(t, err)
		require.True(t, found)
		assert.Same(t, f.provider, root)

		// Built-ins are unkeyed only
		_, _, err = s.(CachedResolver).GetKeyedCached(TypeOf[Scope](), "k")
		assert.ErrorIs(t, err, ErrServiceNotFound)
	})

	t.Run("errors", func(t *testing.T) {
		f := newCachedFixture(t)
		s, err := f.provider.CreateScope(context.Background())
		require.NoError(t, err)
		r := s.(CachedResolver)

		_, found, err := ResolveCached[*TService](s)
		assert.False(t, found)
		assert.ErrorIs(t, err, ErrServiceNotFound)
		var resolutionErr *ResolutionError
		assert.ErrorAs(t, err, &resolutionErr)

		_, _, err = r.GetKeyedCached(PtrTypeOf[cachedScoped](), "unknown")
		assert.ErrorIs(t, err, ErrServiceNotFound)
		_, _, err = r.GetCached(nil)
		assert.ErrorIs(t, err, ErrServiceTypeNil)
		_, _, err = r.GetKeyedCached(nil, "k")
		assert.ErrorIs(t, err, ErrServiceTypeNil)
		_, _, err = r.GetKeyedCached(PtrTypeOf[cachedScoped](), nil)
		assert.ErrorIs(t, err, ErrServiceKeyNil)
		_, _, err = ResolveCached[*cachedScoped](nil)
		assert.ErrorIs(t, err, ErrProviderNil)

		// A failed construction leaves nothing cached, and looking does not retry it
		_, err = Resolve[*cachedFailing](s)
		require.Error(t, err)
		_, found, err = ResolveCached[*cachedFailing](s)
		require.NoError(t, err)
		assert.False(t, found)
		assert.EqualValues(t, 1, f.failing.Load())

		// Closed scope, then closed provider
		_, err = Resolve[*cachedScoped](s)
		require.NoError(t, err)
		require.NoError(t, s.Close())
		_, found, err = ResolveCached[*cachedScoped](s)
		assert.False(t, found)
		assert.ErrorIs(t, err, ErrScopeDisposed)
		_, _, err = ResolveCached[*cachedSingleton](s)
		assert.ErrorIs(t, err, ErrScopeDisposed)
		_, _, err = r.GetKeyedCached(PtrTypeOf[cachedScoped](), "named")
		assert.ErrorIs(t, err, ErrScopeDisposed)

		require.NoError(t, f.provider.Close())
		_, _, err = ResolveCached[*cachedSingleton](f.provider)
		assert.ErrorIs(t, err, ErrProviderDisposed)
		_, _, err = f.provider.(CachedResolver).GetKeyedCached(PtrTypeOf[cachedScoped](), "named")
		assert.ErrorIs(t, err, ErrProviderDisposed)
	})

	t.Run("second build has its own instances", func(t *testing.T) {
		c := NewCollection()
		var n atomic.Int32
		require.NoError(t, c.AddSingleton(func() *cachedSingleton { return &cachedSingleton{n: n.Add(1)} }))
		p1, err := c.Build()
		require.NoError(t, err)
		defer p1.Close()
		p2, err := c.Build()
		require.NoError(t, err)
		defer p2.Close()

		s1, found, err := ResolveCached[*cachedSingleton](p1)
		require.NoError(t, err)
		require.True(t, found)
		s2, found, err := ResolveCached[*cachedSingleton](p2)
		require.NoError(t, err)
		require.True(t, found)
		assert.NotSame(t, s1, s2)
		assert.EqualValues(t, 2, n.Load())
	})
}

func TestScopeGetCachedConcurrent(t *testing.T) {
	f := newCachedFixture(t)

	for round := 0; round < 50; round++ {
		s, err := f.provider.CreateScope(context.Background())
		require.NoError(t, err)

		var wg sync.WaitGroup
		start := make(chan struct{})

		resolved := make(chan *cachedScoped, 1)
		wg.Add(1)
		go func() {
			defer wg.Done()
			<-start
			v, err := Resolve[*cachedScoped](s)
			if err != nil {
				assert.ErrorIs(t, err, ErrScopeDisposed)
				v = nil
			}
			resolved <- v
		}()

		seen := make(chan *cachedScoped, 4)
		for i := 0; i < 4; i++ {
			wg.Add(1)
			go func() {
				defer wg.Done()
				<-start
				for j := 0; j < 20; j++ {
					v, found, err := ResolveCached[*cachedScoped](s)
					if err != nil {
						assert.ErrorIs(t, err, ErrScopeDisposed)
						assert.False(t, found)
						return
					}
					if found {
						seen <- v
						return
					}
				}
			}()
		}

		wg.Add(1)
		go func() {
			defer wg.Done()
			<-start
			if round%2 == 0 {
				assert.NoError(t, s.Close())
			}
		}()

		close(start)
		wg.Wait()
		close(seen)

		// Whatever the lookups saw is one and the same instance: the one the
		// scope handed out (the resolution itself may have lost against Close)
		want := <-resolved
		for v := range seen {
			if want == nil {
				want = v
			}
			assert.Same(t, want, v)
		}
		require.NoError(t, s.Close())
	}
}
