package gin

import (
	"encoding/json"
	"errors"
	"net/http"
	"net/http/httptest"
	"sync"
	"sync/atomic"
	"testing"

	"github.com/gin-gonic/gin"
	"github.com/junioryono/godi/v4"
	"github.com/stretchr/testify/assert"
	"github.com/stretchr/testify/require"
)

type resultUser struct {
	ID   string `json:"id"`
	Unit int32  `json:"unit"`
}

// resultUnit is a scoped, closable unit of work shared by the middleware,
// the controller and anything else resolved during the request.
type resultUnit struct {
	n      int32
	closed atomic.Int32
}

func (u *resultUnit) Close() error { u.closed.Add(1); return nil }

var errResultNotFound = errors.New("user not found")

type resultController struct {
	unit  *resultUnit
	calls *atomic.Int32
}

func (c *resultController) Get(ctx *gin.Context) (*resultUser, error) {
	c.calls.Add(1)
	id := ctx.Param("id")
	if id == "missing" {
		return nil, errResultNotFound
	}
	if id == "boom" {
		panic("controller panic")
	}
	return &resultUser{ID: id, Unit: c.unit.n}, nil
}

func (c *resultController) Download(ctx *gin.Context) (*resultUser, error) {
	ctx.String(http.StatusAccepted, "raw")
	return &resultUser{ID: "ignored"}, nil
}

func (c *resultController) Delete(ctx *gin.Context) error {
	c.calls.Add(1)
	if ctx.Param("id") == "missing" {
		return errResultNotFound
	}
	ctx.Status(http.StatusNoContent)
	return nil
}

type resultEnv struct {
	provider godi.Provider
	units    atomic.Int32
	ctrls    atomic.Int32
	calls    atomic.Int32
	mu       sync.Mutex
	created  []*resultUnit
}

func newResultEnv(t *testing.T, extra ...func(godi.Collection)) *resultEnv {
	t.Helper()
	env := &resultEnv{}
	collection := godi.NewCollection()
	require.NoError(t, collection.AddScoped(func() *resultUnit {
		u := &resultUnit{n: env.units.Add(1)}
		env.mu.Lock()
		env.created = append(env.created, u)
		env.mu.Unlock()
		return u
	}))
	require.NoError(t, collection.AddScoped(func(u *resultUnit) *resultController {
		env.ctrls.Add(1)
		return &resultController{unit: u, calls: &env.calls}
	}))
	for _, f := range extra {
		f(collection)
	}
	provider, err := collection.Build()
	require.NoError(t, err)
	t.Cleanup(func() { _ = provider.Close() })
	env.provider = provider
	return env
}

func (e *resultEnv) assertAllClosedOnce(t *testing.T) {
	t.Helper()
	e.mu.Lock()
	defer e.mu.Unlock()
	for _, u := range e.created {
		assert.EqualValues(t, 1, u.closed.Load())
	}
}

func do(g *gin.Engine, method, path string) *httptest.ResponseRecorder {
	rec := httptest.NewRecorder()
	g.ServeHTTP(rec, httptest.NewRequest(method, path, nil))
	return rec
}

func TestHandleResult(t *testing.T) {
	t.Run("renders the result and shares the request scope", func(t *testing.T) {
		env := newResultEnv(t)

		var mwUnit *resultUnit
		g := gin.New()
		g.Use(ScopeMiddleware(env.provider, WithMiddleware(func(scope godi.Scope, _ *gin.Context) error {
			mwUnit = godi.MustResolve[*resultUnit](scope)
			return nil
		})))
		g.GET("/users/:id", HandleResult((*resultController).Get))

		rec := do(g, http.MethodGet, "/users/42")
		assert.Equal(t, http.StatusOK, rec.Code)
		var got resultUser
		require.NoError(t, json.Unmarshal(rec.Body.Bytes(), &got))
		assert.Equal(t, resultUser{ID: "42", Unit: mwUnit.n}, got)

		// One unit and one controller for the request, closed exactly once.
		assert.EqualValues(t, 1, env.units.Load())
		assert.EqualValues(t, 1, env.ctrls.Load())
		assert.EqualValues(t, 1, env.calls.Load())
		env.assertAllClosedOnce(t)

		// A second request gets a fresh scope.
		rec = do(g, http.MethodGet, "/users/43")
		require.NoError(t, json.Unmarshal(rec.Body.Bytes(), &got))
		assert.Equal(t, resultUser{ID: "43", Unit: 2}, got)
		assert.EqualValues(t, 2, env.ctrls.Load())
		env.assertAllClosedOnce(t)
	})

	t.Run("does not render when the method wrote the response", func(t *testing.T) {
		env := newResultEnv(t)
		g := gin.New()
		g.Use(ScopeMiddleware(env.provider))
		g.GET("/download", HandleResult((*resultController).Download))

		rec := do(g, http.MethodGet, "/download")
		assert.Equal(t, http.StatusAccepted, rec.Code)
		assert.Equal(t, "raw", rec.Body.String())
	})

	t.Run("method error goes to the result error handler", func(t *testing.T) {
		env := newResultEnv(t)
		g := gin.New()
		g.Use(ScopeMiddleware(env.provider))

		var handled error
		g.GET("/custom/:id", HandleResult((*resultController).Get,
			WithResultErrorHandler(func(c *gin.Context, err error) {
				handled = err
				c.AbortWithStatus(http.StatusNotFound)
			})))
		g.GET("/default/:id", HandleResult((*resultController).Get))
		g.GET("/nil/:id", HandleResult((*resultController).Get, WithResultErrorHandler(nil)))

		rec := do(g, http.MethodGet, "/custom/missing")
		assert.Equal(t, http.StatusNotFound, rec.Code)
		assert.ErrorIs(t, handled, errResultNotFound)
		assert.Empty(t, rec.Body.String())

		rec = do(g, http.MethodGet, "/default/missing")
		assert.Equal(t, http.StatusInternalServerError, rec.Code)
		assert.NotContains(t, rec.Body.String(), "user not found")

		rec = do(g, http.MethodGet, "/nil/missing")
		assert.Equal(t, http.StatusInternalServerError, rec.Code)

		assert.EqualValues(t, 3, env.calls.Load())
		env.assertAllClosedOnce(t)
	})

	t.Run("method is not called when scope or controller are unavailable", func(t *testing.T) {
		env := newResultEnv(t, func(c godi.Collection) {
			require.NoError(t, c.AddScoped(func() (*testService, error) { return nil, errors.New("no service") }))
			require.NoError(t, c.AddScoped(newTestController))
		})

		called := false
		method := func(*testController, *gin.Context) (string, error) { called = true; return "x", nil }
		scopeErrs, resolveErrs, resultErrs := 0, 0, 0
		opts := []HandlerOption{
			WithScopeErrorHandler(func(c *gin.Context, _ error) { scopeErrs++; c.AbortWithStatus(http.StatusBadGateway) }),
			WithResolutionErrorHandler(func(c *gin.Context, _ error) { resolveErrs++; c.AbortWithStatus(http.StatusConflict) }),
			WithResultErrorHandler(func(*gin.Context, error) { resultErrs++ }),
		}

		// No scope middleware at all.
		bare := gin.New()
		bare.GET("/x", HandleResult(method, opts...))
		assert.Equal(t, http.StatusBadGateway, do(bare, http.MethodGet, "/x").Code)

		// Scope present, controller's dependency fails to construct.
		g := gin.New()
		g.Use(ScopeMiddleware(env.provider))
		g.GET("/x", HandleResult(method, opts...))
		assert.Equal(t, http.StatusConflict, do(g, http.MethodGet, "/x").Code)

		assert.False(t, called)
		assert.Equal(t, 1, scopeErrs)
		assert.Equal(t, 1, resolveErrs)
		assert.Zero(t, resultErrs)
	})

	t.Run("panics are swallowed only with recovery enabled", func(t *testing.T) {
		env := newResultEnv(t)
		g := gin.New()
		g.Use(ScopeMiddleware(env.provider))
		var recovered any
		g.GET("/safe/:id", HandleResult((*resultController).Get, WithPanicRecovery(true),
			WithPanicHandler(func(c *gin.Context, v any) { recovered = v; c.AbortWithStatus(http.StatusTeapot) })))
		g.GET("/raw/:id", HandleResult((*resultController).Get))

		assert.Equal(t, http.StatusTeapot, do(g, http.MethodGet, "/safe/boom").Code)
		assert.Equal(t, "controller panic", recovered)
		assert.PanicsWithValue(t, "controller panic", func() { do(g, http.MethodGet, "/raw/boom") })

		// The scope middleware closed the scope on both paths.
		assert.EqualValues(t, 2, env.units.Load())
		env.assertAllClosedOnce(t)
	})

	t.Run("concurrent requests do not share scoped instances", func(t *testing.T) {
		env := newResultEnv(t)
		g := gin.New()
		g.Use(ScopeMiddleware(env.provider))
		g.GET("/users/:id", HandleResult((*resultController).Get))

		const n = 24
		units := make([]int32, n)
		var wg sync.WaitGroup
		for i := 0; i < n; i++ {
			wg.Add(1)
			go func(i int) {
				defer wg.Done()
				rec := do(g, http.MethodGet, "/users/u")
				var got resultUser
				if json.Unmarshal(rec.Body.Bytes(), &got) == nil {
					units[i] = got.Unit
				}
			}(i)
		}
		wg.Wait()

		seen := map[int32]bool{}
		for _, u := range units {
			assert.NotZero(t, u)
			seen[u] = true
		}
		assert.Len(t, seen, n)
		assert.EqualValues(t, n, env.ctrls.Load())
		env.assertAllClosedOnce(t)
	})
}

func TestHandleErr(t *testing.T) {
	env := newResultEnv(t)
	g := gin.New()
	g.Use(ScopeMiddleware(env.provider))

	var handled []error
	g.DELETE("/users/:id", HandleErr((*resultController).Delete,
		WithResultErrorHandler(func(c *gin.Context, err error) {
			handled = append(handled, err)
			c.AbortWithStatus(http.StatusNotFound)
		})))
	g.DELETE("/default/:id", HandleErr((*resultController).Delete))

	assert.Equal(t, http.StatusNoContent, do(g, http.MethodDelete, "/users/1").Code)
	assert.Empty(t, handled)

	assert.Equal(t, http.StatusNotFound, do(g, http.MethodDelete, "/users/missing").Code)
	require.Len(t, handled, 1)
	assert.ErrorIs(t, handled[0], errResultNotFound)

	assert.Equal(t, http.StatusInternalServerError, do(g, http.MethodDelete, "/default/missing").Code)

	assert.EqualValues(t, 3, env.calls.Load())
	assert.EqualValues(t, 3, env.ctrls.Load())
	env.assertAllClosedOnce(t)
}
