package godi

import (
	"context"
	"errors"
	"fmt"
	"sync"
	"testing"
	"time"

	"github.com/stretchr/testify/assert"
	"github.com/stretchr/testify/require"
)

type f2Repo struct{}
type f2Handler struct{ repo *f2Repo }
type f2Outer struct{ h *f2Handler }

var errF2Ctor = errors.New("f2: cannot connect")

func newF2Repo() *f2Repo                { return &f2Repo{} }
func newF2RepoFails() (*f2Repo, error)  { return nil, errF2Ctor }
func newF2RepoPanics() *f2Repo          { panic(errF2Ctor) }
func newF2Handler(r *f2Repo) *f2Handler { return &f2Handler{repo: r} }
func newF2Outer(h *f2Handler) *f2Outer  { return &f2Outer{h: h} }
func newF2HandlerKeyed(in struct {
	In
	Repo *f2Repo `name:"primary"`
}) *f2Handler {
	return &f2Handler{repo: in.Repo}
}

func TestF2_DetailsOnRealErrorPaths(t *testing.T) {
	t.Parallel()

	t.Run("nil and foreign errors", func(t *testing.T) {
		assert.Equal(t, ErrorDetails{Code: CodeUnknown}, Details(nil))
		assert.Equal(t, CodeUnknown, CodeOf(errors.New("something else")))
		assert.Equal(t, CodeUnknown, CodeOf(errors.Join(ErrServiceNotFound, ErrScopeDisposed)),
			"joined errors are not followed")
	})

	t.Run("missing keyed dependency at Build", func(t *testing.T) {
		c := NewCollection()
		require.NoError(t, c.AddScoped(newF2HandlerKeyed))
		_, err := c.Build()
		require.Error(t, err)

		d := Details(err)
		assert.Equal(t, CodeNotFound, d.Code)
		assert.Equal(t, "validation", d.Phase)
		assert.Equal(t, PtrTypeOf[f2Repo](), d.ServiceType)
		assert.Equal(t, "primary", d.ServiceKey)
		assert.Empty(t, d.Modules)

		// Nothing about the error itself changed
		assert.True(t, errors.Is(err, ErrServiceNotFound))
	})

	t.Run("circular dependency and lifetime conflict at Build", func(t *testing.T) {
		c := NewCollection()
		require.NoError(t, c.AddSingleton(NewTCircularA))
		require.NoError(t, c.AddSingleton(NewTCircularB))
		_, err := c.Build()
		d := Details(err)
		assert.Equal(t, CodeCircularDependency, d.Code)
		assert.Equal(t, "validation", d.Phase)
		assert.Contains(t, []any{PtrTypeOf[TCircularA](), PtrTypeOf[TCircularB]()}, any(d.ServiceType))

		c = NewCollection()
		require.NoError(t, c.AddScoped(newF2Repo))
		require.NoError(t, c.AddTransient(newF2Handler))
		_, err = c.Build()
		d = Details(err)
		assert.Equal(t, CodeLifetimeConflict, d.Code)
		assert.Equal(t, PtrTypeOf[f2Handler](), d.ServiceType)
		assert.Nil(t, d.ServiceKey)
	})

	t.Run("already registered inside nested modules", func(t *testing.T) {
		c := NewCollection()
		err := c.AddModules(NewModule("app", nil, NewModule("db",
			AddScoped(newF2Repo, Name("primary")),
			AddScoped(newF2Repo, Name("primary")),
		)))
		d := Details(err)
		assert.Equal(t, CodeAlreadyRegistered, d.Code)
		assert.Equal(t, []string{"app", "db"}, d.Modules)
		assert.Equal(t, PtrTypeOf[f2Repo](), d.ServiceType)
		assert.Equal(t, "", d.Phase)
		assert.Equal(t, 1, c.Count())

		// Other registration failures are "invalid"
		assert.Equal(t, CodeInvalid, CodeOf(c.AddSingleton(nil)))
		assert.Equal(t, CodeInvalid, CodeOf(c.AddSingleton(newF2Repo, Name("a"), Group("b"))))
		assert.Equal(t, CodeInvalid, CodeOf(c.AddSingleton(func() context.Context { return context.Background() })))
	})

	t.Run("constructor error and panic, directly and in a dependency", func(t *testing.T) {
		c := NewCollection()
		require.NoError(t, c.AddSingleton(newF2RepoFails))
		_, err := c.Build()
		d := Details(err)
		assert.Equal(t, CodeConstructorFailed, d.Code)
		assert.Equal(t, "singleton-creation", d.Phase)
		assert.Equal(t, PtrTypeOf[f2Repo](), d.ServiceType)
		assert.True(t, errors.Is(err, errF2Ctor))

		p := BuildProvider(t, AddScoped(newF2RepoPanics), AddScoped(newF2Handler), AddScoped(newF2Outer))
		scope, err := p.CreateScope(context.Background())
		require.NoError(t, err)

		_, err = Resolve[*f2Repo](scope)
		assert.Equal(t, CodeConstructorPanic, CodeOf(err))

		// The panic of a dependency two levels down is still the innermost classification
		_, err = Resolve[*f2Outer](scope)
		require.Error(t, err)
		assert.Equal(t, CodeConstructorPanic, CodeOf(err))
		var panicErr *ConstructorPanicError
		require.True(t, errors.As(err, &panicErr))
		assert.Equal(t, errF2Ctor, panicErr.Panic)

		// Not cached: same classification on retry
		_, err = Resolve[*f2Outer](scope)
		assert.Equal(t, CodeConstructorPanic, CodeOf(err))
	})

	t.Run("resolution: not found, invalid arguments, disposed", func(t *testing.T) {
		p := BuildProvider(t, AddScoped(newF2Repo), AddTransient(NewTTransient, Group("g")))
		scope, err := p.CreateScope(context.Background())
		require.NoError(t, err)
		child, err := scope.CreateScope(context.Background())
		require.NoError(t, err)

		_, err = ResolveKeyed[*f2Repo](child, 42)
		d := Details(err)
		assert.Equal(t, CodeNotFound, d.Code)
		assert.Equal(t, PtrTypeOf[f2Repo](), d.ServiceType)
		assert.Equal(t, 42, d.ServiceKey)

		_, err = child.Get(nil)
		assert.Equal(t, CodeInvalid, CodeOf(err))
		_, err = child.GetGroup(PtrTypeOf[TTransient](), "")
		assert.Equal(t, CodeInvalid, CodeOf(err))
		_, err = Resolve[*f2Repo](nil)
		assert.Equal(t, CodeInvalid, CodeOf(err))

		_, err = FromContext(context.Background())
		assert.Equal(t, CodeResolutionFailed, CodeOf(err))
		assert.False(t, errors.Is(err, ErrServiceNotFound))

		require.NoError(t, scope.Close())
		_, err = Resolve[*f2Repo](child)
		assert.Equal(t, CodeDisposed, CodeOf(err))
		_, err = scope.CreateScope(context.Background())
		assert.Equal(t, CodeDisposed, CodeOf(err))

		require.NoError(t, p.Close())
		_, err = p.GetGroup(PtrTypeOf[TTransient](), "g")
		assert.Equal(t, CodeDisposed, CodeOf(err))
	})

	t.Run("build cancellation, timeout and disposal failures", func(t *testing.T) {
		ctx, cancel := context.WithCancel(context.Background())
		cancel()
		c := NewCollection()
		require.NoError(t, c.AddSingleton(newF2Repo))
		_, err := c.BuildWithContext(ctx)
		d := Details(err)
		assert.Equal(t, CodeCanceled, d.Code)
		assert.Equal(t, "initialization", d.Phase)

		assert.Equal(t, CodeTimeout, CodeOf(&TimeoutError{ServiceType: TypeOf[int](), Timeout: time.Second}))
		assert.Equal(t, CodeTimeout, CodeOf(BuildError{Phase: "graph", Cause: context.DeadlineExceeded}))

		closeErr := errors.New("f2: close failed")
		p := BuildProvider(t, AddScoped(func() *TDisposable {
			d := NewTDisposable()
			d.SetCloseError(closeErr)
			return d
		}))
		scope, err := p.CreateScope(context.Background())
		require.NoError(t, err)
		_, err = Resolve[*TDisposable](scope)
		require.NoError(t, err)
		err = scope.Close()
		require.Error(t, err)
		assert.Equal(t, CodeDisposalFailed, CodeOf(err))
		assert.NoError(t, scope.Close(), "second Close still returns nil")
	})
}

func TestF2_ValueAndPointerFormsAgree(t *testing.T) {
	t.Parallel()

	svc := PtrTypeOf[TService]()
	pairs := [][2]error{
		{ResolutionError{ServiceType: svc, ServiceKey: "k", Cause: ErrServiceNotFound}, &ResolutionError{ServiceType: svc, ServiceKey: "k", Cause: ErrServiceNotFound}},
		{LifetimeConflictError{ServiceType: svc}, &LifetimeConflictError{ServiceType: svc}},
		{AlreadyRegisteredError{ServiceType: svc}, &AlreadyRegisteredError{ServiceType: svc}},
		{ModuleError{Module: "m", Cause: ErrScopeDisposed}, &ModuleError{Module: "m", Cause: ErrScopeDisposed}},
		{DisposalError{Context: "scope"}, &DisposalError{Context: "scope"}},
		{ConstructorInvocationError{Cause: errF2Ctor}, &ConstructorInvocationError{Cause: errF2Ctor}},
		{CircularDependencyError{}, &CircularDependencyError{}},
		{LifetimeError{Value: 9}, &LifetimeError{Value: 9}},
	}
	for _, pair := range pairs {
		assert.Equal(t, Details(pair[0]), Details(pair[1]), "%T", pair[0])
		assert.NotEqual(t, CodeUnknown, CodeOf(pair[0]), "%T", pair[0])
		assert.Equal(t, CodeOf(pair[0]), CodeOf(fmt.Errorf("wrapped: %w", pair[1])))
	}

	// A nil typed pointer in the chain is skipped instead of dereferenced
	var nilErr *ModuleError
	assert.NotPanics(t, func() { _ = errorValue(nilErr) })
}

// Details only reads the error chain, so it can be used on one error from many
// goroutines while the container that produced it is in use and being closed.
func TestF2_ConcurrentUse(t *testing.T) {
	t.Parallel()

	p := BuildProvider(t, AddScoped(newF2Repo), AddScoped(newF2Handler))

	var wg sync.WaitGroup
	for i := 0; i < 16; i++ {
		wg.Add(1)
		go func() {
			defer wg.Done()
			scope, err := p.CreateScope(context.Background())
			if err != nil {
				assert.Equal(t, CodeDisposed, CodeOf(err))
				return
			}

			var inner sync.WaitGroup
			for j := 0; j < 4; j++ {
				inner.Add(1)
				go func() {
					defer inner.Done()
					if _, err := Resolve[*f2Handler](scope); err != nil {
						assert.Equal(t, CodeDisposed, CodeOf(err), "%v", err)
						assert.True(t, errors.Is(err, ErrScopeDisposed))
					}
					_, err := Resolve[*TService](scope)
					assert.Contains(t, []ErrorCode{CodeNotFound, CodeDisposed}, CodeOf(err))
				}()
			}
			_ = scope.Close()
			inner.Wait()
		}()
	}
	wg.Wait()
}
