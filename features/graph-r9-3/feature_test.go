package graph_test

import (
	"math/rand"
	"reflect"
	"sync"
	"testing"

	"github.com/junioryono/godi/v4"
	"github.com/junioryono/godi/v4/internal/graph"
	"github.com/junioryono/godi/v4/internal/reflection"
	"github.com/stretchr/testify/assert"
	"github.com/stretchr/testify/require"
)

type (
	lcA struct{}
	lcB struct{}
	lcC struct{}
	lcD struct{}
	lcE struct{}
	lcM struct{}
)

var (
	lcTypeA = reflect.TypeOf(lcA{})
	lcTypeB = reflect.TypeOf(lcB{})
	lcTypeC = reflect.TypeOf(lcC{})
	lcTypeD = reflect.TypeOf(lcD{})
	lcTypeE = reflect.TypeOf(lcE{})
	lcTypeM = reflect.TypeOf(lcM{})
)

func lcProvider(t reflect.Type, deps ...reflect.Type) *godi.Descriptor {
	d := &godi.Descriptor{Type: t, Lifetime: godi.Singleton}
	for _, dep := range deps {
		d.Dependencies = append(d.Dependencies, &reflection.Dependency{Type: dep})
	}
	return d
}

func lcTypes(n int) []reflect.Type {
	types := make([]reflect.Type, n)
	for i := range types {
		types[i] = reflect.ArrayOf(i+1, lcTypeA)
	}
	return types
}

// lcRequireChain checks that chain is a path of direct dependencies in g.
func lcRequireChain(t *testing.T, g *graph.DependencyGraph, chain []graph.NodeKey) {
	t.Helper()
	seen := make(map[graph.NodeKey]bool)
	for i, key := range chain {
		require.True(t, g.HasNode(key.Type, key.Key, key.Group), "chain[%d] is not a node", i)
		require.False(t, seen[key], "chain[%d] repeats a node", i)
		seen[key] = true
		if i+1 < len(chain) {
			require.Contains(t, g.GetDependencies(key.Type, key.Key, key.Group), chain[i+1],
				"chain[%d] does not depend on chain[%d]", i, i+1)
		}
	}
}

func TestLongestChain_EmptyAndSingle(t *testing.T) {
	g := graph.NewDependencyGraph()

	chain, err := g.LongestChain()
	require.NoError(t, err)
	assert.Nil(t, chain)

	require.NoError(t, g.AddProvider(lcProvider(lcTypeA)))
	chain, err = g.LongestChain()
	require.NoError(t, err)
	assert.Equal(t, []graph.NodeKey{{Type: lcTypeA}}, chain)

	g.Clear()
	chain, err = g.LongestChain()
	require.NoError(t, err)
	assert.Nil(t, chain)
}

func TestLongestChain_PicksTheLongerBranch(t *testing.T) {
	g := graph.NewDependencyGraph()

	// E -> A            (short branch)
	// E -> D -> C -> B -> A
	require.NoError(t, g.AddProvider(lcProvider(lcTypeA)))
	require.NoError(t, g.AddProvider(lcProvider(lcTypeB, lcTypeA)))
	require.NoError(t, g.AddProvider(lcProvider(lcTypeC, lcTypeB)))
	require.NoError(t, g.AddProvider(lcProvider(lcTypeD, lcTypeC)))
	require.NoError(t, g.AddProvider(lcProvider(lcTypeE, lcTypeA, lcTypeD)))

	chain, err := g.LongestChain()
	require.NoError(t, err)
	assert.Equal(t, []graph.NodeKey{
		{Type: lcTypeE}, {Type: lcTypeD}, {Type: lcTypeC}, {Type: lcTypeB}, {Type: lcTypeA},
	}, chain)

	// Replacing D by a provider without dependencies shortens the chain
	require.NoError(t, g.AddProvider(lcProvider(lcTypeD)))
	chain, err = g.LongestChain()
	require.NoError(t, err)
	assert.Equal(t, []graph.NodeKey{{Type: lcTypeC}, {Type: lcTypeB}, {Type: lcTypeA}}, chain)

	// Removing B splits it further
	g.RemoveProvider(lcTypeB, nil, "")
	chain, err = g.LongestChain()
	require.NoError(t, err)
	assert.Len(t, chain, 2)
	assert.Equal(t, graph.NodeKey{Type: lcTypeE}, chain[0])
	lcRequireChain(t, g, chain)

	// The caller owns the result
	chain[0] = graph.NodeKey{}
	again, err := g.LongestChain()
	require.NoError(t, err)
	assert.Equal(t, graph.NodeKey{Type: lcTypeE}, again[0])
}

func TestLongestChain_ThroughGroupsAndKeys(t *testing.T) {
	for _, deferred := range []bool{false, true} {
		g := graph.NewDependencyGraph()
		add := g.AddProvider
		if deferred {
			add = g.AddProviderDeferred
		}

		// E -> [group of M] -> M:m2 -> A:"primary"
		require.NoError(t, add(&godi.Descriptor{
			Type:         lcTypeE,
			Dependencies: []*reflection.Dependency{{Type: lcTypeM, Group: "g"}},
		}))
		require.NoError(t, add(&godi.Descriptor{Type: lcTypeM, Key: "m1", Group: "g"}))
		require.NoError(t, add(&godi.Descriptor{Type: lcTypeM, Key: "m2", Group: "g",
			Dependencies: []*reflection.Dependency{{Type: lcTypeA, Key: "primary"}}}))
		require.NoError(t, add(&godi.Descriptor{Type: lcTypeA, Key: "primary"}))
		require.NoError(t, add(&godi.Descriptor{Type: lcTypeA, Key: "unused"}))
		require.NoError(t, g.DetectCycles())

		chain, err := g.LongestChain()
		require.NoError(t, err)
		assert.Equal(t, []graph.NodeKey{
			{Type: lcTypeE},
			{Type: lcTypeM, Group: "g"},
			{Type: lcTypeM, Key: "m2", Group: "g"},
			{Type: lcTypeA, Key: "primary"},
		}, chain, "deferred=%v", deferred)
	}
}

func TestLongestChain_Cycle(t *testing.T) {
	g := graph.NewDependencyGraph()

	// D -> A -> B -> C -> A
	require.NoError(t, g.AddProviderDeferred(lcProvider(lcTypeA, lcTypeB)))
	require.NoError(t, g.AddProviderDeferred(lcProvider(lcTypeB, lcTypeC)))
	require.NoError(t, g.AddProviderDeferred(lcProvider(lcTypeC, lcTypeA)))
	require.NoError(t, g.AddProviderDeferred(lcProvider(lcTypeD, lcTypeA)))
	require.Error(t, g.DetectCycles())

	for i := 0; i < 20; i++ { // whatever node the iteration starts from
		chain, err := g.LongestChain()
		assert.Nil(t, chain)

		var cycleErr *graph.CircularDependencyError
		require.ErrorAs(t, err, &cycleErr)
		assert.NotEqual(t, lcTypeD, cycleErr.Node.Type, "D is not on the cycle")
		require.NotEmpty(t, cycleErr.Path)
		for _, key := range cycleErr.Path {
			assert.NotEqual(t, lcTypeD, key.Type)
		}
	}

	// A self-dependency is a cycle as well
	self := graph.NewDependencyGraph()
	require.NoError(t, self.AddProviderDeferred(lcProvider(lcTypeA, lcTypeA)))
	_, err := self.LongestChain()
	var cycleErr *graph.CircularDependencyError
	require.ErrorAs(t, err, &cycleErr)
	assert.Equal(t, graph.NodeKey{Type: lcTypeA}, cycleErr.Node)

	// The query left the graph alone: breaking the cycle makes everything work
	g.RemoveProvider(lcTypeC, nil, "")
	require.NoError(t, g.DetectCycles())
	chain, err := g.LongestChain()
	require.NoError(t, err)
	assert.Equal(t, []graph.NodeKey{{Type: lcTypeD}, {Type: lcTypeA}, {Type: lcTypeB}}, chain)

	// An add rejected for closing a cycle leaves the chain as it was
	require.Error(t, g.AddProvider(lcProvider(lcTypeB, lcTypeD, lcTypeE)))
	chain, err = g.LongestChain()
	require.NoError(t, err)
	assert.Equal(t, []graph.NodeKey{{Type: lcTypeD}, {Type: lcTypeA}, {Type: lcTypeB}}, chain)
}

func TestLongestChain_DoesNotDisturbCachesOrNodes(t *testing.T) {
	g := graph.NewDependencyGraph()
	require.NoError(t, g.AddProvider(lcProvider(lcTypeA)))
	require.NoError(t, g.AddProvider(lcProvider(lcTypeB, lcTypeA)))
	require.NoError(t, g.AddProvider(lcProvider(lcTypeC, lcTypeB)))
	g.CalculateDepths()

	before, err := g.TopologicalSort()
	require.NoError(t, err)
	node := g.GetNode(lcTypeC, nil, "")
	snapshot := *node

	_, err = g.LongestChain()
	require.NoError(t, err)

	after, err := g.TopologicalSort()
	require.NoError(t, err)
	assert.Equal(t, before, after)
	assert.Equal(t, snapshot, *node, "node metadata (depth, degrees, visit flags) is untouched")
	assert.Equal(t, 2, node.Depth)
}

// On random DAGs the chain is a real path whose length matches both a brute
// force computation and the depths assigned by CalculateDepths.
func TestLongestChain_AgreesWithReference(t *testing.T) {
	const n = 10
	types := lcTypes(n)
	rng := rand.New(rand.NewSource(3))

	for round := 0; round < 60; round++ {
		g := graph.NewDependencyGraph()
		adj := make([][]int, n)
		for i := 0; i < n; i++ {
			var deps []reflect.Type
			for j := 0; j < i; j++ {
				if rng.Intn(4) == 0 {
					adj[i] = append(adj[i], j)
					deps = append(deps, types[j])
				}
			}
			if round%2 == 0 {
				require.NoError(t, g.AddProvider(lcProvider(types[i], deps...)))
			} else {
				require.NoError(t, g.AddProviderDeferred(lcProvider(types[i], deps...)))
			}
		}
		require.NoError(t, g.DetectCycles())

		// Reference: longest path by exhaustive recursion
		var longestFrom func(i int) int
		longestFrom = func(i int) int {
			best := 0
			for _, j := range adj[i] {
				best = max(best, longestFrom(j))
			}
			return best + 1
		}
		want := 0
		for i := 0; i < n; i++ {
			want = max(want, longestFrom(i))
		}

		chain, err := g.LongestChain()
		require.NoError(t, err)
		assert.Len(t, chain, want, "round %d", round)
		lcRequireChain(t, g, chain)

		g.CalculateDepths()
		maxDepth := 0
		for i := 0; i < n; i++ {
			maxDepth = max(maxDepth, g.GetNode(types[i], nil, "").Depth)
		}
		assert.Equal(t, maxDepth+1, len(chain), "round %d", round)
		assert.Equal(t, maxDepth, g.GetNode(chain[0].Type, nil, "").Depth)
		assert.Equal(t, 0, g.GetNode(chain[len(chain)-1].Type, nil, "").Depth)
	}
}

func TestLongestChain_DeepGraph(t *testing.T) {
	const n = 1000
	g := graph.NewDependencyGraphWithCapacity(n)
	types := lcTypes(n)

	require.NoError(t, g.AddProviderDeferred(lcProvider(types[0])))
	for i := 1; i < n; i++ {
		require.NoError(t, g.AddProviderDeferred(lcProvider(types[i], types[i-1])))
	}
	require.NoError(t, g.DetectCycles())

	chain, err := g.LongestChain()
	require.NoError(t, err)
	require.Len(t, chain, n)
	assert.Equal(t, types[n-1], chain[0].Type)
	assert.Equal(t, types[0], chain[n-1].Type)
}

func TestLongestChain_Concurrent(t *testing.T) {
	const n = 10
	types := lcTypes(n)
	g := graph.NewDependencyGraph()
	require.NoError(t, g.AddProvider(lcProvider(types[0])))

	var wg sync.WaitGroup
	wg.Add(1)
	go func() {
		defer wg.Done()
		for round := 0; round < 20; round++ {
			for i := 1; i < n; i++ {
				assert.NoError(t, g.AddProvider(lcProvider(types[i], types[i-1])))
			}
			for i := n - 1; i >= 1; i-- {
				g.RemoveProvider(types[i], nil, "")
			}
		}
	}()

	for r := 0; r < 4; r++ {
		wg.Add(1)
		go func() {
			defer wg.Done()
			for i := 0; i < 300; i++ {
				chain, err := g.LongestChain()
				if assert.NoError(t, err) && assert.NotEmpty(t, chain) {
					// The graph is always a single chain ending in types[0]
					assert.Equal(t, types[len(chain)-1], chain[0].Type)
					assert.Equal(t, types[0], chain[len(chain)-1].Type)
				}
				g.IsAcyclic()
				g.CalculateDepths()
			}
		}()
	}
	wg.Wait()
}
