package godi

import (
	"errors"
	"reflect"
	"sync"
	"sync/atomic"
	"testing"

	"github.com/stretchr/testify/assert"
	"github.com/stretchr/testify/require"
)

type (
	vLogger  struct{ n int32 }
	vDB      struct{ log *vLogger }
	vRepo    struct{ db *vDB }
	vHandler struct{ name string }
	vCycleA  struct{}
	vCycleB  struct{}
)

type vRouterIn struct {
	In
	Handlers []*vHandler `group:"handlers"`
	Repo     *vRepo      `optional:"true"`
}

type vRouter struct{ in vRouterIn }

// assertSameBuildFailure checks that Validate reported what Build reports: the
// same phase and details and the same kind of cause (which node a reported
// cycle starts at is not deterministic, so the texts may differ).
func assertSameBuildFailure(t *testing.T, buildErr, validateErr error) {
	t.Helper()

	var fromBuild, fromValidate *BuildError
	require.ErrorAs(t, buildErr, &fromBuild)
	require.ErrorAs(t, validateErr, &fromValidate)
	assert.Equal(t, fromBuild.Phase, fromValidate.Phase)
	assert.Equal(t, fromBuild.Details, fromValidate.Details)
	assert.IsType(t, fromBuild.Cause, fromValidate.Cause)
}

func TestCollectionValidate(t *testing.T) {
	t.Run("valid_set_runs_no_constructor_and_build_still_works", func(t *testing.T) {
		var loggers, dbs, repos atomic.Int32

		c := NewCollection()
		require.NoError(t, c.AddSingleton(func() *vLogger { return &vLogger{n: loggers.Add(1)} }))
		require.NoError(t, c.AddSingleton(func(l *vLogger) *vDB { dbs.Add(1); return &vDB{log: l} }))
		require.NoError(t, c.AddScoped(func(db *vDB) *vRepo { repos.Add(1); return &vRepo{db: db} }))
		require.NoError(t, c.AddScoped(func() {}))

		before := c.ToSlice()
		require.NoError(t, c.Validate())
		require.NoError(t, c.Validate(), "Validate is repeatable")

		assert.Zero(t, loggers.Load()+dbs.Load()+repos.Load(), "Validate must not call constructors")
		assert.Equal(t, before, c.ToSlice(), "Validate must not change the registrations")

		p, err := c.Build()
		require.NoError(t, err)
		defer p.Close()

		assert.EqualValues(t, 1, loggers.Load())
		assert.EqualValues(t, 1, dbs.Load())

		// Validating after a Build neither touches the provider nor re-runs anything
		require.NoError(t, c.Validate())
		db, err := Resolve[*vDB](p)
		require.NoError(t, err)
		again, err := Resolve[*vDB](p)
		require.NoError(t, err)
		assert.Same(t, db, again)
		assert.EqualValues(t, 1, dbs.Load())
	})

	t.Run("cycle", func(t *testing.T) {
		c := NewCollection()
		require.NoError(t, c.AddSingleton(func(*vCycleB) *vCycleA { return &vCycleA{} }))
		require.NoError(t, c.AddSingleton(func(*vCycleA) *vCycleB { return &vCycleB{} }))

		err := c.Validate()
		require.Error(t, err)

		var buildErr *BuildError
		require.ErrorAs(t, err, &buildErr)
		assert.Equal(t, "validation", buildErr.Phase)

		var cycleErr *CircularDependencyError
		require.ErrorAs(t, err, &cycleErr)

		_, buildFailure := c.Build()
		require.Error(t, buildFailure)
		assertSameBuildFailure(t, buildFailure, err)

		// Removing one half of the cycle turns the verdict around: the missing
		// dependency is reported next, and goes away with the dependent
		c.Remove(reflect.TypeOf((*vCycleB)(nil)))
		err = c.Validate()
		require.ErrorIs(t, err, ErrServiceNotFound)
		c.Remove(reflect.TypeOf((*vCycleA)(nil)))
		require.NoError(t, c.Validate())
	})

	t.Run("lifetime_conflict_direct_and_through_group", func(t *testing.T) {
		c := NewCollection()
		require.NoError(t, c.AddScoped(func() *vDB { return &vDB{} }))
		require.NoError(t, c.AddSingleton(func(db *vDB) *vRepo { return &vRepo{db: db} }))

		var conflict *LifetimeConflictError
		require.ErrorAs(t, c.Validate(), &conflict)
		assert.Equal(t, Singleton, conflict.ServiceLifetime)
		assert.Equal(t, Scoped, conflict.DependencyLifetime)

		g := NewCollection()
		require.NoError(t, g.AddSingleton(func() *vHandler { return &vHandler{name: "a"} }, Group("handlers")))
		require.NoError(t, g.AddScoped(func() *vHandler { return &vHandler{name: "b"} }, Group("handlers")))
		require.NoError(t, g.AddTransient(func(in vRouterIn) *vRouter { return &vRouter{in: in} }))
		conflict = nil
		require.ErrorAs(t, g.Validate(), &conflict)
		assert.Equal(t, Transient, conflict.ServiceLifetime)

		// Scoped depending on scoped is fine
		s := NewCollection()
		require.NoError(t, s.AddScoped(func() *vDB { return &vDB{} }))
		require.NoError(t, s.AddScoped(func(db *vDB) *vRepo { return &vRepo{db: db} }))
		require.NoError(t, s.Validate())
	})

	t.Run("missing_required_optional_and_empty_group", func(t *testing.T) {
		c := NewCollection()
		require.NoError(t, c.AddTransient(func(db *vDB) *vRepo { return &vRepo{db: db} }))

		err := c.Validate()
		require.ErrorIs(t, err, ErrServiceNotFound)
		var resErr *ResolutionError
		require.ErrorAs(t, err, &resErr)
		assert.Equal(t, reflect.TypeOf((*vDB)(nil)), resErr.ServiceType)

		// An empty group and a missing optional dependency are no defects
		o := NewCollection()
		require.NoError(t, o.AddScoped(func(in vRouterIn) *vRouter { return &vRouter{in: in} }))
		require.NoError(t, o.Validate())

		// Built-in injectables need no registration
		b := NewCollection()
		require.NoError(t, b.AddScoped(func(s Scope, p Provider) *vRepo { return &vRepo{} }))
		require.NoError(t, b.Validate())
	})

	t.Run("agrees_with_build", func(t *testing.T) {
		sets := map[string][]ModuleOption{
			"empty":       {},
			"chain":       {AddSingleton(func() *vLogger { return &vLogger{} }), AddScoped(func(l *vLogger) *vDB { return &vDB{log: l} })},
			"self_cycle":  {AddTransient(func(*vCycleA) *vCycleA { return &vCycleA{} })},
			"keyed_miss":  {AddSingleton(func() *vLogger { return &vLogger{} }, Name("x")), AddSingleton(func(l *vLogger) *vDB { return &vDB{log: l} })},
			"scoped_init": {AddSingleton(func() *vLogger { return &vLogger{} }), AddScoped(func(*vLogger) {})},
			"conflict":    {AddScoped(func() *vLogger { return &vLogger{} }), AddTransient(func(l *vLogger) *vDB { return &vDB{log: l} })},
		}

		for name, opts := range sets {
			c := NewCollection()
			require.NoError(t, c.AddModules(opts...), name)

			validateErr := c.Validate()
			p, buildErr := c.Build()
			assert.Equal(t, buildErr == nil, validateErr == nil, name)
			if buildErr != nil {
				assertSameBuildFailure(t, buildErr, validateErr)
			} else {
				require.NoError(t, p.Close())
			}
		}
	})

	t.Run("through_module_error_stays_distinguishable", func(t *testing.T) {
		c := NewCollection()
		require.NoError(t, c.AddModules(NewModule("outer", NewModule("inner",
			AddSingleton(func(*vCycleB) *vCycleA { return &vCycleA{} }),
			AddSingleton(func(*vCycleA) *vCycleB { return &vCycleB{} }),
		))))

		var cycleErr *CircularDependencyError
		require.True(t, errors.As(c.Validate(), &cycleErr))
	})

	t.Run("concurrent_validate_build_and_queries", func(t *testing.T) {
		var constructed atomic.Int32

		c := NewCollection()
		require.NoError(t, c.AddSingleton(func() *vLogger { return &vLogger{n: constructed.Add(1)} }))
		require.NoError(t, c.AddScoped(func(l *vLogger) *vDB { return &vDB{log: l} }))

		var wg sync.WaitGroup
		for i := 0; i < 8; i++ {
			wg.Add(1)
			go func(i int) {
				defer wg.Done()
				for j := 0; j < 20; j++ {
					assert.NoError(t, c.Validate())
					assert.True(t, c.Contains(reflect.TypeOf((*vLogger)(nil))))
					assert.Equal(t, 2, c.Count())
				}

				if i%4 == 0 {
					p, err := c.Build()
					if assert.NoError(t, err) {
						assert.NoError(t, p.Close())
					}
				}
			}(i)
		}
		wg.Wait()

		assert.EqualValues(t, 2, constructed.Load(), "one singleton per Build, none per Validate")
	})
}
