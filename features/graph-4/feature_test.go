package graph_test

import (
	"errors"
	"math/rand"
	"reflect"
	"sync"
	"testing"

	"github.com/junioryono/godi/v4/internal/graph"
	"github.com/junioryono/godi/v4/internal/reflection"
	"github.com/stretchr/testify/assert"
	"github.com/stretchr/testify/require"
)

// subProvider is a minimal graph.Provider.
type subProvider struct {
	typ   reflect.Type
	key   any
	group string
	deps  []*reflection.Dependency
}

func (p *subProvider) GetType() reflect.Type                     { return p.typ }
func (p *subProvider) GetKey() any                               { return p.key }
func (p *subProvider) GetGroup() string                          { return p.group }
func (p *subProvider) GetDependencies() []*reflection.Dependency { return p.deps }

// subType returns a distinct type for every i.
func subType(i int) reflect.Type { return reflect.ArrayOf(i+1, reflect.TypeOf(0)) }

func subKey(i int) graph.NodeKey { return graph.NodeKey{Type: subType(i)} }

func subPlain(i int, deps ...int) *subProvider {
	p := &subProvider{typ: subType(i)}
	for _, d := range deps {
		p.deps = append(p.deps, &reflection.Dependency{Type: subType(d)})
	}
	return p
}

func subDeps(g *graph.DependencyGraph, k graph.NodeKey) []graph.NodeKey {
	return g.GetDependencies(k.Type, k.Key, k.Group)
}

func subDependents(g *graph.DependencyGraph, k graph.NodeKey) []graph.NodeKey {
	return g.GetDependents(k.Type, k.Key, k.Group)
}

// subCheckConsistent verifies the invariants every graph has: edges lead to
// nodes, dependents mirror dependencies, degrees count them, and the sort is
// complete and ordered.
func subCheckConsistent(t *testing.T, g *graph.DependencyGraph, keys []graph.NodeKey) {
	t.Helper()
	require.Equal(t, len(keys), g.Size())

	for _, k := range keys {
		node := g.GetNode(k.Type, k.Key, k.Group)
		require.NotNil(t, node, "%v", k)
		require.Equal(t, k, node.Key)
		require.Equal(t, len(subDependents(g, k)), node.InDegree)
		require.Equal(t, len(subDeps(g, k)), node.OutDegree)

		for _, d := range subDeps(g, k) {
			require.True(t, g.HasNode(d.Type, d.Key, d.Group), "%v -> %v leaves the graph", k, d)
			require.Contains(t, subDependents(g, d), k)
		}
		for _, d := range subDependents(g, k) {
			require.Contains(t, subDeps(g, d), k)
		}
	}

	if g.IsAcyclic() {
		sorted, err := g.TopologicalSort()
		require.NoError(t, err)
		require.Len(t, sorted, len(keys))
		at := map[graph.NodeKey]int{}
		for i, n := range sorted {
			at[n.Key] = i
		}
		require.Len(t, at, len(keys))
		for _, k := range keys {
			for _, d := range subDeps(g, k) {
				require.Less(t, at[d], at[k])
			}
		}
	}
}

func TestSubgraph_DependencyClosure(t *testing.T) {
	// 4 -> {2, 3}, 2 -> 1, 3 -> 1, 1 -> 0; 6 -> {5, 1}; 7 alone; 8 is only a dependency of 5
	g := graph.NewDependencyGraph()
	for _, p := range []*subProvider{
		subPlain(0), subPlain(1, 0), subPlain(2, 1), subPlain(3, 1), subPlain(4, 2, 3),
		subPlain(5, 8), subPlain(6, 5, 1), subPlain(7),
	} {
		require.NoError(t, g.AddProvider(p))
	}

	sub := g.Subgraph(subKey(4))
	closure := []graph.NodeKey{subKey(0), subKey(1), subKey(2), subKey(3), subKey(4)}
	subCheckConsistent(t, sub, closure)
	for _, k := range closure {
		assert.Equal(t, subDeps(g, k), subDeps(sub, k), "closed under dependencies: %v keeps all of them", k)
		assert.Same(t, g.GetNode(k.Type, nil, "").Provider, sub.GetNode(k.Type, nil, "").Provider)
		assert.NotSame(t, g.GetNode(k.Type, nil, ""), sub.GetNode(k.Type, nil, ""))
	}

	// dependents are those inside the subgraph: 6 is not part of it
	assert.ElementsMatch(t, []graph.NodeKey{subKey(2), subKey(3), subKey(6)}, subDependents(g, subKey(1)))
	assert.ElementsMatch(t, []graph.NodeKey{subKey(2), subKey(3)}, subDependents(sub, subKey(1)))
	assert.False(t, sub.HasNode(subType(6), nil, ""))
	assert.False(t, sub.HasNode(subType(7), nil, ""))

	roots := sub.GetRoots() // nobody depends on them
	require.Len(t, roots, 1)
	assert.Equal(t, subKey(4), roots[0].Key)
	leaves := sub.GetLeaves() // depend on nothing
	require.Len(t, leaves, 1)
	assert.Equal(t, subKey(0), leaves[0].Key)

	// several keys, overlapping closures, a placeholder node, unknown and duplicate keys
	sub = g.Subgraph(subKey(6), subKey(2), subKey(99), subKey(6), graph.NodeKey{Type: subType(2), Key: "other"})
	subCheckConsistent(t, sub, []graph.NodeKey{subKey(0), subKey(1), subKey(2), subKey(5), subKey(6), subKey(8)})
	assert.Nil(t, sub.GetNode(subType(8), nil, "").Provider, "8 has no provider in either graph")
	assert.ElementsMatch(t, []graph.NodeKey{subKey(2), subKey(6)}, subDependents(sub, subKey(1)))

	// nothing to copy
	for _, empty := range []*graph.DependencyGraph{g.Subgraph(), g.Subgraph(subKey(99)), graph.NewDependencyGraph().Subgraph(subKey(1))} {
		subCheckConsistent(t, empty, nil)
		require.NoError(t, empty.AddProvider(subPlain(1, 0)))
		assert.Equal(t, 2, empty.Size())
	}
}

func TestSubgraph_IsIndependentOfTheOriginal(t *testing.T) {
	g := graph.NewDependencyGraph()
	require.NoError(t, g.AddProvider(subPlain(0)))
	require.NoError(t, g.AddProvider(subPlain(1, 0)))
	require.NoError(t, g.AddProvider(subPlain(2, 1, 0)))
	require.NoError(t, g.AddProvider(subPlain(3, 2)))

	sub := g.Subgraph(subKey(2))
	all := []graph.NodeKey{subKey(0), subKey(1), subKey(2)}
	// warm the caches of both graphs
	_, err := g.TopologicalSort()
	require.NoError(t, err)
	subCheckConsistent(t, sub, all)

	// changing the original does not show in the snapshot
	g.RemoveProvider(subType(1), nil, "")
	require.NoError(t, g.AddProvider(subPlain(0, 4)))
	require.NoError(t, g.AddProvider(subPlain(5, 2)))
	subCheckConsistent(t, sub, all)
	assert.Equal(t, []graph.NodeKey{subKey(1), subKey(0)}, subDeps(sub, subKey(2)))
	assert.Empty(t, subDeps(sub, subKey(0)))
	g.Clear()
	subCheckConsistent(t, sub, all)

	// and the other way round
	require.NoError(t, g.AddProvider(subPlain(0)))
	require.NoError(t, g.AddProvider(subPlain(1, 0)))
	require.NoError(t, g.AddProvider(subPlain(2, 1, 0)))
	sub = g.Subgraph(subKey(2))
	sub.RemoveProvider(subType(0), nil, "")
	require.NoError(t, sub.AddProvider(subPlain(1, 7)))
	require.NoError(t, sub.AddProvider(subPlain(8, 2)))
	require.Error(t, sub.AddProvider(subPlain(7, 8)), "the copy detects its own cycles")
	subCheckConsistent(t, sub, []graph.NodeKey{subKey(1), subKey(2), subKey(7), subKey(8)})
	subCheckConsistent(t, g, all)
	assert.Equal(t, []graph.NodeKey{subKey(1), subKey(0)}, subDeps(g, subKey(2)))
	assert.Equal(t, []graph.NodeKey{subKey(0)}, subDeps(g, subKey(1)))

	// a cycle check on the original is not answered from a stale cache either
	require.NoError(t, g.DetectCycles())
	require.NoError(t, sub.DetectCycles())
}

func TestSubgraph_KeysAndGroups(t *testing.T) {
	base, member, consumer, other := subType(0), subType(1), subType(2), subType(3)

	g := graph.NewDependencyGraph()
	require.NoError(t, g.AddProviderDeferred(&subProvider{typ: consumer, deps: []*reflection.Dependency{{Type: member, Group: "g"}, {Type: base, Key: "b"}}}))
	require.NoError(t, g.AddProviderDeferred(&subProvider{typ: member, key: 1, group: "g", deps: []*reflection.Dependency{{Type: base, Key: "a"}}}))
	require.NoError(t, g.AddProviderDeferred(&subProvider{typ: member, key: 2, group: "g"}))
	require.NoError(t, g.AddProviderDeferred(&subProvider{typ: member, key: 3, group: "h"})) // another group
	require.NoError(t, g.AddProviderDeferred(&subProvider{typ: base, key: "a"}))
	require.NoError(t, g.AddProviderDeferred(&subProvider{typ: base, key: "b"}))
	require.NoError(t, g.AddProviderDeferred(&subProvider{typ: base})) // same type, no key
	require.NoError(t, g.AddProviderDeferred(&subProvider{typ: other, deps: []*reflection.Dependency{{Type: consumer}}}))
	require.NoError(t, g.DetectCycles())

	want := []graph.NodeKey{
		{Type: consumer},
		{Type: member, Group: "g"},
		{Type: member, Key: 1, Group: "g"},
		{Type: member, Key: 2, Group: "g"},
		{Type: base, Key: "a"},
		{Type: base, Key: "b"},
	}

	sub := g.Subgraph(graph.NodeKey{Type: consumer})
	subCheckConsistent(t, sub, want)
	assert.ElementsMatch(t,
		[]graph.NodeKey{{Type: member, Key: 1, Group: "g"}, {Type: member, Key: 2, Group: "g"}},
		sub.GetDependencies(member, nil, "g"), "the group is linked to exactly its members")

	// linking the groups again on the copy changes nothing
	require.NoError(t, sub.DetectCycles())
	subCheckConsistent(t, sub, want)
	for _, k := range want {
		assert.ElementsMatch(t, subDeps(g, k), subDeps(sub, k))
	}

	// one member alone does not drag in the group
	sub = g.Subgraph(graph.NodeKey{Type: member, Key: 1, Group: "g"})
	subCheckConsistent(t, sub, []graph.NodeKey{{Type: member, Key: 1, Group: "g"}, {Type: base, Key: "a"}})
}

func TestSubgraph_KeepsUnrejectedCycles(t *testing.T) {
	g := graph.NewDependencyGraph()
	require.NoError(t, g.AddProviderDeferred(subPlain(0)))
	require.NoError(t, g.AddProviderDeferred(subPlain(1, 2, 0)))
	require.NoError(t, g.AddProviderDeferred(subPlain(2, 3)))
	require.NoError(t, g.AddProviderDeferred(subPlain(3, 1)))
	require.NoError(t, g.AddProviderDeferred(subPlain(4, 0)))

	cyclic := g.Subgraph(subKey(2))
	assert.Equal(t, 4, cyclic.Size())
	var cErr *graph.CircularDependencyError
	require.True(t, errors.As(cyclic.DetectCycles(), &cErr))
	_, err := cyclic.TopologicalSort()
	require.Error(t, err)

	fine := g.Subgraph(subKey(4))
	require.NoError(t, fine.DetectCycles())
	subCheckConsistent(t, fine, []graph.NodeKey{subKey(0), subKey(4)})
	require.Error(t, g.DetectCycles())
}

func TestSubgraph_AgreesWithReference(t *testing.T) {
	rng := rand.New(rand.NewSource(5))

	for round := 0; round < 60; round++ {
		n := 2 + rng.Intn(14)
		edges := make(map[int][]int, n)
		g := graph.NewDependencyGraph()
		for i := 0; i < n; i++ {
			for d := 0; d < i; d++ {
				if rng.Intn(4) == 0 {
					edges[i] = append(edges[i], d)
				}
			}
			require.NoError(t, g.AddProvider(subPlain(i, edges[i]...)))
		}

		var keys []graph.NodeKey
		closure := map[int]bool{}
		var reach func(i int)
		reach = func(i int) {
			if !closure[i] {
				closure[i] = true
				for _, d := range edges[i] {
					reach(d)
				}
			}
		}
		for k := rng.Intn(3); k >= 0; k-- {
			i := rng.Intn(n)
			keys = append(keys, subKey(i))
			reach(i)
		}

		sub := g.Subgraph(keys...)
		var want []graph.NodeKey
		for i := range closure {
			want = append(want, subKey(i))
		}
		subCheckConsistent(t, sub, want)

		for i := range closure {
			var deps, dependents []graph.NodeKey
			for _, d := range edges[i] {
				deps = append(deps, subKey(d))
			}
			for j := range closure {
				for _, d := range edges[j] {
					if d == i {
						dependents = append(dependents, subKey(j))
					}
				}
			}
			require.Equal(t, len(deps), len(subDeps(sub, subKey(i))))
			require.ElementsMatch(t, deps, subDeps(sub, subKey(i)))
			require.ElementsMatch(t, dependents, subDependents(sub, subKey(i)))
			require.ElementsMatch(t, g.GetTransitiveDependencies(subType(i), nil, ""), sub.GetTransitiveDependencies(subType(i), nil, ""))
		}
	}
}

func TestSubgraph_Concurrent(t *testing.T) {
	g := graph.NewDependencyGraph()
	require.NoError(t, g.AddProvider(subPlain(0)))
	require.NoError(t, g.AddProvider(subPlain(1, 0)))
	require.NoError(t, g.AddProvider(subPlain(2, 1)))

	var wg sync.WaitGroup
	for w := 0; w < 4; w++ {
		wg.Add(2)
		go func(w int) {
			defer wg.Done()
			k := 10 + w
			for i := 0; i < 150; i++ {
				_ = g.AddProvider(subPlain(k, 2))
				_ = g.AddProviderDeferred(subPlain(k+10, k))
				_ = g.DetectCycles()
				_, _ = g.TopologicalSort()
				g.RemoveProvider(subType(k), nil, "")
				g.RemoveProvider(subType(k+10), nil, "")
			}
		}(w)
		go func(w int) {
			defer wg.Done()
			for i := 0; i < 150; i++ {
				sub := g.Subgraph(subKey(2), subKey(10+w), subKey(20+w))
				// whatever moment the snapshot was taken at, it is a closed
				// graph of its own that can be used and changed freely
				assert.NoError(t, sub.DetectCycles())
				sorted, err := sub.TopologicalSort()
				assert.NoError(t, err)
				assert.Len(t, sorted, sub.Size())
				for _, n := range sorted {
					for _, d := range n.Dependencies {
						assert.True(t, sub.HasNode(d.Type, d.Key, d.Group))
					}
				}
				assert.Equal(t, []graph.NodeKey{subKey(1), subKey(0)}, sub.GetTransitiveDependencies(subType(2), nil, ""))
				sub.RemoveProvider(subType(1), nil, "")
				assert.NoError(t, sub.AddProvider(subPlain(30, 2)))
			}
		}(w)
	}
	wg.Wait()

	assert.Equal(t, []graph.NodeKey{subKey(1)}, subDeps(g, subKey(2)), "the original never saw the changes made to the copies")
}
