package graph_test

import (
	"math/rand"
	"reflect"
	"sync"
	"testing"

	"github.com/junioryono/godi/v4"
	"github.com/junioryono/godi/v4/internal/graph"
	"github.com/junioryono/godi/v4/internal/reflection"
	"github.com/stretchr/testify/assert"
	"github.com/stretchr/testify/require"
)

type (
	hpA struct{}
	hpB struct{}
	hpC struct{}
	hpD struct{}
	hpE struct{}
	hpH struct{}
)

var (
	hpTypeA = reflect.TypeOf(hpA{})
	hpTypeB = reflect.TypeOf(hpB{})
	hpTypeC = reflect.TypeOf(hpC{})
	hpTypeD = reflect.TypeOf(hpD{})
	hpTypeE = reflect.TypeOf(hpE{})
	hpTypeH = reflect.TypeOf(hpH{})
)

func hpKey(t reflect.Type) graph.NodeKey { return graph.NodeKey{Type: t} }

func hpProvider(t reflect.Type, deps ...reflect.Type) *godi.Descriptor {
	d := &godi.Descriptor{Type: t, Lifetime: godi.Singleton}
	for _, dep := range deps {
		d.Dependencies = append(d.Dependencies, &reflection.Dependency{Type: dep})
	}
	return d
}

func TestHasPath_ChainAndDiamond(t *testing.T) {
	g := graph.NewDependencyGraph()

	// D -> B -> A, D -> C -> A, E isolated
	require.NoError(t, g.AddProvider(hpProvider(hpTypeA)))
	require.NoError(t, g.AddProvider(hpProvider(hpTypeB, hpTypeA)))
	require.NoError(t, g.AddProvider(hpProvider(hpTypeC, hpTypeA)))
	require.NoError(t, g.AddProvider(hpProvider(hpTypeD, hpTypeB, hpTypeC)))
	require.NoError(t, g.AddProvider(hpProvider(hpTypeE)))

	assert.True(t, g.HasPath(hpKey(hpTypeD), hpKey(hpTypeA)), "transitive")
	assert.True(t, g.HasPath(hpKey(hpTypeD), hpKey(hpTypeB)), "direct")
	assert.True(t, g.HasPath(hpKey(hpTypeB), hpKey(hpTypeA)))

	assert.False(t, g.HasPath(hpKey(hpTypeA), hpKey(hpTypeD)), "edges are directed")
	assert.False(t, g.HasPath(hpKey(hpTypeB), hpKey(hpTypeC)), "siblings")
	assert.False(t, g.HasPath(hpKey(hpTypeD), hpKey(hpTypeE)), "isolated node")
	assert.False(t, g.HasPath(hpKey(hpTypeE), hpKey(hpTypeA)))

	// A path needs at least one edge
	assert.False(t, g.HasPath(hpKey(hpTypeA), hpKey(hpTypeA)))
	assert.False(t, g.HasPath(hpKey(hpTypeD), hpKey(hpTypeD)))

	// Unknown endpoints
	assert.False(t, g.HasPath(hpKey(hpTypeH), hpKey(hpTypeA)))
	assert.False(t, g.HasPath(hpKey(hpTypeD), hpKey(hpTypeH)))
	assert.False(t, g.HasPath(graph.NodeKey{}, graph.NodeKey{}))
	assert.False(t, graph.NewDependencyGraph().HasPath(hpKey(hpTypeA), hpKey(hpTypeA)))
}

func TestHasPath_KeysAreDistinctIdentities(t *testing.T) {
	g := graph.NewDependencyGraph()

	primary := graph.NodeKey{Type: hpTypeA, Key: "primary"}
	replica := graph.NodeKey{Type: hpTypeA, Key: "replica"}

	require.NoError(t, g.AddProvider(&godi.Descriptor{Type: hpTypeA, Key: "primary"}))
	require.NoError(t, g.AddProvider(&godi.Descriptor{Type: hpTypeA, Key: "replica"}))
	require.NoError(t, g.AddProvider(&godi.Descriptor{
		Type:         hpTypeB,
		Dependencies: []*reflection.Dependency{{Type: hpTypeA, Key: "primary"}},
	}))

	assert.True(t, g.HasPath(hpKey(hpTypeB), primary))
	assert.False(t, g.HasPath(hpKey(hpTypeB), replica))
	assert.False(t, g.HasPath(hpKey(hpTypeB), hpKey(hpTypeA)), "the unkeyed identity is not in the graph")
}

func TestHasPath_ThroughGroups(t *testing.T) {
	for _, deferred := range []bool{false, true} {
		g := graph.NewDependencyGraph()
		add := g.AddProvider
		if deferred {
			add = g.AddProviderDeferred
		}

		// The consumer is registered before the members it will receive
		require.NoError(t, add(&godi.Descriptor{
			Type:         hpTypeD,
			Dependencies: []*reflection.Dependency{{Type: hpTypeH, Group: "handlers"}},
		}))
		require.NoError(t, add(hpProvider(hpTypeA)))
		require.NoError(t, add(&godi.Descriptor{Type: hpTypeH, Key: "m1", Group: "handlers",
			Dependencies: []*reflection.Dependency{{Type: hpTypeA}}}))
		require.NoError(t, add(&godi.Descriptor{Type: hpTypeH, Key: "m2", Group: "handlers"}))
		require.NoError(t, add(&godi.Descriptor{Type: hpTypeH, Key: "o1", Group: "other"}))
		require.NoError(t, g.DetectCycles())

		groupRef := graph.NodeKey{Type: hpTypeH, Group: "handlers"}
		m1 := graph.NodeKey{Type: hpTypeH, Key: "m1", Group: "handlers"}
		m2 := graph.NodeKey{Type: hpTypeH, Key: "m2", Group: "handlers"}
		o1 := graph.NodeKey{Type: hpTypeH, Key: "o1", Group: "other"}

		assert.True(t, g.HasPath(hpKey(hpTypeD), groupRef), "deferred=%v", deferred)
		assert.True(t, g.HasPath(hpKey(hpTypeD), m1), "deferred=%v", deferred)
		assert.True(t, g.HasPath(hpKey(hpTypeD), m2), "deferred=%v", deferred)
		assert.True(t, g.HasPath(hpKey(hpTypeD), hpKey(hpTypeA)), "through a member, deferred=%v", deferred)
		assert.False(t, g.HasPath(hpKey(hpTypeD), o1), "another group, deferred=%v", deferred)
		assert.False(t, g.HasPath(m2, hpKey(hpTypeA)), "deferred=%v", deferred)

		// Removing a member removes the paths through it
		g.RemoveProvider(hpTypeH, "m1", "handlers")
		assert.False(t, g.HasPath(hpKey(hpTypeD), m1))
		assert.False(t, g.HasPath(hpKey(hpTypeD), hpKey(hpTypeA)))
		assert.True(t, g.HasPath(hpKey(hpTypeD), m2))
	}
}

func TestHasPath_RejectedAddLeavesAnswersUnchanged(t *testing.T) {
	g := graph.NewDependencyGraph()

	require.NoError(t, g.AddProvider(hpProvider(hpTypeA)))
	require.NoError(t, g.AddProvider(hpProvider(hpTypeB, hpTypeA)))
	require.NoError(t, g.AddProvider(hpProvider(hpTypeC, hpTypeB)))

	// Replacing A so that it depends on C would close the cycle A -> C -> B -> A
	err := g.AddProvider(hpProvider(hpTypeA, hpTypeC, hpTypeE))
	var cycleErr *graph.CircularDependencyError
	require.ErrorAs(t, err, &cycleErr)

	assert.True(t, g.HasPath(hpKey(hpTypeC), hpKey(hpTypeA)))
	assert.False(t, g.HasPath(hpKey(hpTypeA), hpKey(hpTypeC)), "the rejected edge must not be visible")
	assert.False(t, g.HasPath(hpKey(hpTypeA), hpKey(hpTypeA)))
	assert.False(t, g.HasPath(hpKey(hpTypeA), hpKey(hpTypeE)), "E was only created for the rejected add")
	assert.False(t, g.HasNode(hpTypeE, nil, ""))
}

func TestHasPath_ReplaceRemoveClear(t *testing.T) {
	g := graph.NewDependencyGraph()

	require.NoError(t, g.AddProvider(hpProvider(hpTypeA)))
	require.NoError(t, g.AddProvider(hpProvider(hpTypeB)))
	require.NoError(t, g.AddProvider(hpProvider(hpTypeC, hpTypeA)))
	assert.True(t, g.HasPath(hpKey(hpTypeC), hpKey(hpTypeA)))

	// Replace: C now depends on B only
	require.NoError(t, g.AddProvider(hpProvider(hpTypeC, hpTypeB)))
	assert.False(t, g.HasPath(hpKey(hpTypeC), hpKey(hpTypeA)), "a replaced provider keeps no old edges")
	assert.True(t, g.HasPath(hpKey(hpTypeC), hpKey(hpTypeB)))

	// Deferred replace with a provider that has no dependencies at all
	require.NoError(t, g.AddProviderDeferred(hpProvider(hpTypeC)))
	require.NoError(t, g.DetectCycles())
	assert.False(t, g.HasPath(hpKey(hpTypeC), hpKey(hpTypeB)))

	// Removing the middle of a chain cuts the path
	require.NoError(t, g.AddProvider(hpProvider(hpTypeD, hpTypeC)))
	require.NoError(t, g.AddProvider(hpProvider(hpTypeC, hpTypeB)))
	assert.True(t, g.HasPath(hpKey(hpTypeD), hpKey(hpTypeB)))
	g.RemoveProvider(hpTypeC, nil, "")
	assert.False(t, g.HasPath(hpKey(hpTypeD), hpKey(hpTypeB)))
	assert.False(t, g.HasPath(hpKey(hpTypeD), hpKey(hpTypeC)))

	g.Clear()
	assert.False(t, g.HasPath(hpKey(hpTypeD), hpKey(hpTypeB)))
}

func TestHasPath_DeferredCycle(t *testing.T) {
	g := graph.NewDependencyGraph()

	// A -> B -> C -> A, D -> A
	require.NoError(t, g.AddProviderDeferred(hpProvider(hpTypeA, hpTypeB)))
	require.NoError(t, g.AddProviderDeferred(hpProvider(hpTypeB, hpTypeC)))
	require.NoError(t, g.AddProviderDeferred(hpProvider(hpTypeC, hpTypeA)))
	require.NoError(t, g.AddProviderDeferred(hpProvider(hpTypeD, hpTypeA)))
	require.Error(t, g.DetectCycles())

	// The search terminates on a cyclic graph and a node on the cycle reaches itself
	assert.True(t, g.HasPath(hpKey(hpTypeA), hpKey(hpTypeA)))
	assert.True(t, g.HasPath(hpKey(hpTypeC), hpKey(hpTypeB)))
	assert.True(t, g.HasPath(hpKey(hpTypeD), hpKey(hpTypeC)))
	assert.False(t, g.HasPath(hpKey(hpTypeD), hpKey(hpTypeD)), "D only leads into the cycle")
	assert.False(t, g.HasPath(hpKey(hpTypeA), hpKey(hpTypeD)))
}

// hpNodeTypes are n distinct types to build arbitrary graphs from.
func hpNodeTypes(n int) []reflect.Type {
	types := make([]reflect.Type, n)
	for i := range types {
		types[i] = reflect.ArrayOf(i+1, hpTypeA)
	}
	return types
}

func TestHasPath_AgreesWithReferenceDigraph(t *testing.T) {
	const n = 9
	types := hpNodeTypes(n)
	rng := rand.New(rand.NewSource(7))

	for round := 0; round < 60; round++ {
		g := graph.NewDependencyGraph()
		adj := make([][]int, n)
		present := make([]bool, n)

		// Random DAG (edges go from higher to lower index), some nodes only
		// exist because something depends on them, some do not exist at all
		for i := 0; i < n; i++ {
			if rng.Intn(5) == 0 {
				continue
			}
			deps := []reflect.Type{}
			for j := 0; j < i; j++ {
				if rng.Intn(3) == 0 {
					adj[i] = append(adj[i], j)
					deps = append(deps, types[j])
					present[j] = true
				}
			}
			present[i] = true
			if round%2 == 0 {
				require.NoError(t, g.AddProvider(hpProvider(types[i], deps...)))
			} else {
				require.NoError(t, g.AddProviderDeferred(hpProvider(types[i], deps...)))
			}
		}
		require.NoError(t, g.DetectCycles())

		// Remove one node from both
		victim := rng.Intn(n)
		g.RemoveProvider(types[victim], nil, "")
		present[victim] = false
		adj[victim] = nil
		for i := range adj {
			kept := adj[i][:0]
			for _, j := range adj[i] {
				if j != victim {
					kept = append(kept, j)
				}
			}
			adj[i] = kept
		}

		var reach func(from, to int, seen []bool) bool
		reach = func(from, to int, seen []bool) bool {
			for _, next := range adj[from] {
				if next == to {
					return true
				}
				if !seen[next] {
					seen[next] = true
					if reach(next, to, seen) {
						return true
					}
				}
			}
			return false
		}

		for from := 0; from < n; from++ {
			for to := 0; to < n; to++ {
				want := present[from] && present[to] && reach(from, to, make([]bool, n))
				assert.Equal(t, want, g.HasPath(hpKey(types[from]), hpKey(types[to])),
					"round %d: %d -> %d", round, from, to)
			}
		}
	}
}

func TestHasPath_ConcurrentWithMutation(t *testing.T) {
	const n = 12
	types := hpNodeTypes(n)
	g := graph.NewDependencyGraph()
	require.NoError(t, g.AddProvider(hpProvider(types[0])))

	var wg sync.WaitGroup
	wg.Add(1)
	go func() {
		defer wg.Done()
		for round := 0; round < 20; round++ {
			for i := 1; i < n; i++ {
				assert.NoError(t, g.AddProvider(hpProvider(types[i], types[i-1])))
			}
			for i := n - 1; i >= 1; i-- {
				g.RemoveProvider(types[i], nil, "")
			}
		}
	}()

	for r := 0; r < 4; r++ {
		wg.Add(1)
		go func() {
			defer wg.Done()
			for i := 0; i < 400; i++ {
				// The chain only ever points towards lower indexes
				assert.False(t, g.HasPath(hpKey(types[0]), hpKey(types[i%n])))
				g.HasPath(hpKey(types[n-1]), hpKey(types[0]))
				g.IsAcyclic()
			}
		}()
	}
	wg.Wait()

	for i := 1; i < n; i++ {
		require.NoError(t, g.AddProvider(hpProvider(types[i], types[i-1])))
	}
	assert.True(t, g.HasPath(hpKey(types[n-1]), hpKey(types[0])))
}
