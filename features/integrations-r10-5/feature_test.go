package fiber

import (
	"context"
	"net/http"
	"net/http/httptest"
	"sync"
	"sync/atomic"
	"testing"

	"github.com/gofiber/fiber/v2"
	"github.com/junioryono/godi/v4"
	"github.com/stretchr/testify/assert"
	"github.com/stretchr/testify/require"
)

// countingProvider counts the scopes the middleware asks for.
type countingProvider struct {
	godi.Provider
	created atomic.Int32
}

func (p *countingProvider) CreateScope(ctx context.Context) (godi.Scope, error) {
	p.created.Add(1)
	return p.Provider.CreateScope(ctx)
}

// lease is a scoped, disposable service.
type lease struct {
	closed *atomic.Int32
}

func (l *lease) Close() error {
	l.closed.Add(1)
	return nil
}

type leaseController struct {
	lease *lease
}

func (lc *leaseController) Get(c *fiber.Ctx) error {
	return c.SendString("ok")
}

type skipFixture struct {
	provider    *countingProvider
	closed      atomic.Int32
	ctrlBuilt   atomic.Int32
	initialized atomic.Int32
}

func newSkipFixture(t *testing.T) *skipFixture {
	t.Helper()
	f := &skipFixture{}
	collection := godi.NewCollection()
	require.NoError(t, collection.AddScoped(func() *lease { return &lease{closed: &f.closed} }))
	require.NoError(t, collection.AddScoped(func(l *lease) *leaseController {
		f.ctrlBuilt.Add(1)
		return &leaseController{lease: l}
	}))
	// Scope initializer: runs once for every scope that is created
	// (the provider's own root scope included, hence the reset below).
	require.NoError(t, collection.AddScoped(func(l *lease) { f.initialized.Add(1) }))

	provider, err := collection.Build()
	require.NoError(t, err)
	t.Cleanup(func() { _ = provider.Close() })
	f.initialized.Store(0)
	f.provider = &countingProvider{Provider: provider}
	return f
}

func do(t *testing.T, app *fiber.App, path string) *http.Response {
	t.Helper()
	resp, err := app.Test(httptest.NewRequest(http.MethodGet, path, nil))
	require.NoError(t, err)
	t.Cleanup(func() { _ = resp.Body.Close() })
	return resp
}

func TestWithSkipper(t *testing.T) {
	skipHealth := func(c *fiber.Ctx) bool { return c.Path() == "/healthz" }

	t.Run("skipped request gets no scope and nothing to close", func(t *testing.T) {
		f := newSkipFixture(t)

		var skipperCalls, mwCalls atomic.Int32
		app := fiber.New()
		app.Use(ScopeMiddleware(f.provider,
			WithSkipper(func(c *fiber.Ctx) bool {
				skipperCalls.Add(1)
				return skipHealth(c)
			}),
			WithMiddleware(func(godi.Scope, *fiber.Ctx) error {
				mwCalls.Add(1)
				return nil
			}),
		))
		app.Get("/healthz", func(c *fiber.Ctx) error {
			assert.Nil(t, FromContext(c))
			assert.Nil(t, c.Locals(scopeKey))
			_, err := godi.FromContext(c.UserContext())
			assert.Error(t, err)
			return c.SendString("healthy")
		})

		resp := do(t, app, "/healthz")
		assert.Equal(t, http.StatusOK, resp.StatusCode)
		assert.Equal(t, int32(1), skipperCalls.Load())
		assert.Equal(t, int32(0), mwCalls.Load())
		assert.Equal(t, int32(0), f.provider.created.Load())
		assert.Equal(t, int32(0), f.initialized.Load())
		assert.Equal(t, int32(0), f.closed.Load())
	})

	t.Run("other requests get exactly one scope, closed once", func(t *testing.T) {
		f := newSkipFixture(t)

		var seen godi.Scope
		app := fiber.New()
		app.Use(ScopeMiddleware(f.provider, WithSkipper(skipHealth)))
		app.Get("/api", func(c *fiber.Ctx) error {
			seen = FromContext(c)
			require.NotNil(t, seen)
			viaContext, err := godi.FromContext(c.UserContext())
			require.NoError(t, err)
			assert.Same(t, seen, viaContext)
			assert.Equal(t, int32(0), f.closed.Load())
			return c.SendStatus(http.StatusOK)
		})

		resp := do(t, app, "/api")
		assert.Equal(t, http.StatusOK, resp.StatusCode)
		assert.Equal(t, int32(1), f.provider.created.Load())
		assert.Equal(t, int32(1), f.initialized.Load())
		assert.Equal(t, int32(1), f.closed.Load(), "the initializer's lease is closed with the scope")

		_, err := godi.Resolve[*lease](seen)
		assert.ErrorIs(t, err, godi.ErrScopeDisposed)
	})

	t.Run("Handle on a skipped route reports the scope error exactly once", func(t *testing.T) {
		f := newSkipFixture(t)

		var scopeErrs, resolveErrs atomic.Int32
		handle := Handle((*leaseController).Get,
			WithScopeErrorHandler(func(c *fiber.Ctx, err error) error {
				scopeErrs.Add(1)
				assert.ErrorIs(t, err, godi.ErrScopeDisposed)
				return c.SendStatus(http.StatusTeapot)
			}),
			WithResolutionErrorHandler(func(c *fiber.Ctx, err error) error {
				resolveErrs.Add(1)
				return c.SendStatus(http.StatusBadGateway)
			}),
		)

		app := fiber.New()
		app.Use(ScopeMiddleware(f.provider, WithSkipper(skipHealth)))
		app.Get("/healthz", handle)
		app.Get("/api", handle)

		resp := do(t, app, "/healthz")
		assert.Equal(t, http.StatusTeapot, resp.StatusCode)
		assert.Equal(t, int32(1), scopeErrs.Load())
		assert.Equal(t, int32(0), resolveErrs.Load())
		assert.Equal(t, int32(0), f.ctrlBuilt.Load(), "controller never constructed")
		assert.Equal(t, int32(0), f.provider.created.Load())

		// The same wrapper works for a request that was not skipped.
		resp = do(t, app, "/api")
		assert.Equal(t, http.StatusOK, resp.StatusCode)
		assert.Equal(t, int32(1), scopeErrs.Load())
		assert.Equal(t, int32(1), f.ctrlBuilt.Load())
		assert.Equal(t, int32(1), f.provider.created.Load())
		assert.Equal(t, int32(1), f.closed.Load())
	})

	t.Run("a skipping inner middleware leaves the outer scope in place", func(t *testing.T) {
		f := newSkipFixture(t)

		app := fiber.New()
		app.Use(ScopeMiddleware(f.provider))
		app.Use(ScopeMiddleware(f.provider, WithSkipper(func(*fiber.Ctx) bool { return true })))
		app.Get("/api", Handle((*leaseController).Get))

		resp := do(t, app, "/api")
		assert.Equal(t, http.StatusOK, resp.StatusCode)
		assert.Equal(t, int32(1), f.provider.created.Load(), "only the outer middleware created a scope")
		assert.Equal(t, int32(1), f.ctrlBuilt.Load())
		assert.Equal(t, int32(1), f.closed.Load())
	})

	t.Run("nil skipper skips nothing", func(t *testing.T) {
		f := newSkipFixture(t)

		app := fiber.New()
		app.Use(ScopeMiddleware(f.provider, WithSkipper(nil)))
		app.Get("/healthz", Handle((*leaseController).Get))

		resp := do(t, app, "/healthz")
		assert.Equal(t, http.StatusOK, resp.StatusCode)
		assert.Equal(t, int32(1), f.provider.created.Load())
		assert.Equal(t, int32(1), f.closed.Load())
	})

	t.Run("downstream errors of skipped requests pass through unchanged", func(t *testing.T) {
		f := newSkipFixture(t)

		var errorHandled atomic.Int32
		app := fiber.New()
		app.Use(ScopeMiddleware(f.provider,
			WithSkipper(skipHealth),
			WithErrorHandler(func(c *fiber.Ctx, err error) error {
				errorHandled.Add(1)
				return c.SendStatus(http.StatusInternalServerError)
			}),
		))
		app.Get("/healthz", func(c *fiber.Ctx) error {
			return fiber.NewError(http.StatusServiceUnavailable, "draining")
		})

		resp := do(t, app, "/healthz")
		assert.Equal(t, http.StatusServiceUnavailable, resp.StatusCode)
		assert.Equal(t, int32(0), errorHandled.Load(), "the scope error handler is not involved")
	})

	t.Run("concurrent mix of skipped and scoped requests", func(t *testing.T) {
		f := newSkipFixture(t)

		var mu sync.Mutex
		leases := map[*lease]struct{}{}

		app := fiber.New()
		app.Use(ScopeMiddleware(f.provider, WithSkipper(skipHealth)))
		app.Get("/healthz", func(c *fiber.Ctx) error {
			assert.Nil(t, FromContext(c))
			return c.SendString("healthy")
		})
		app.Get("/api", Handle(func(lc *leaseController, c *fiber.Ctx) error {
			mu.Lock()
			leases[lc.lease] = struct{}{}
			mu.Unlock()
			return c.SendString("ok")
		}))

		const n = 20
		var wg sync.WaitGroup
		for i := 0; i < 2*n; i++ {
			path := "/api"
			if i%2 == 0 {
				path = "/healthz"
			}
			wg.Add(1)
			go func() {
				defer wg.Done()
				resp, err := app.Test(httptest.NewRequest(http.MethodGet, path, nil))
				if assert.NoError(t, err) {
					assert.Equal(t, http.StatusOK, resp.StatusCode)
					_ = resp.Body.Close()
				}
			}()
		}
		wg.Wait()

		assert.Len(t, leases, n)
		assert.Equal(t, int32(n), f.provider.created.Load())
		assert.Equal(t, int32(n), f.initialized.Load())
		assert.Equal(t, int32(n), f.closed.Load())
	})
}
