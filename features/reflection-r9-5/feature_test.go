package godi

import (
	"fmt"
	"sync"
	"sync/atomic"
	"testing"

	"github.com/junioryono/godi/v4/internal/reflection"
	"github.com/stretchr/testify/assert"
	"github.com/stretchr/testify/require"
)

type forgetA struct{ id string }
type forgetB struct{ a *forgetA }

func (a *forgetA) GetID() string { return a.id }

type forgetNamer interface{ GetID() string }

type forgetFactoryA struct{}
type forgetFactoryB struct{}

func (forgetFactoryA) Build() *forgetA { return &forgetA{id: "factory-a"} }
func (forgetFactoryB) Build() *forgetA { return &forgetA{id: "factory-b"} }

// newForgetA returns closures that share one function literal (hence one
// analysis). Inlining would give every call site its own copy of the literal.
//
//go:noinline
func newForgetA(id string, calls *atomic.Int32) func() *forgetA {
	return func() *forgetA {
		calls.Add(1)
		return &forgetA{id: id}
	}
}

func newForgetB(a *forgetA) *forgetB { return &forgetB{a: a} }

func TestAnalyzerForget(t *testing.T) {
	analyzer := reflection.New()

	info, err := analyzer.Analyze(newForgetB)
	require.NoError(t, err)
	_, err = analyzer.Analyze(NewTService)
	require.NoError(t, err)
	require.Equal(t, 2, analyzer.CacheSize())

	assert.True(t, analyzer.Forget(newForgetB))
	assert.Equal(t, 1, analyzer.CacheSize(), "only the named constructor is dropped")
	assert.False(t, analyzer.Forget(newForgetB), "nothing left to forget")

	// The info handed out earlier stays usable and an equal one is rebuilt on demand
	require.Len(t, info.Parameters, 1)
	rebuilt, err := analyzer.Analyze(newForgetB)
	require.NoError(t, err)
	assert.NotSame(t, info, rebuilt)
	assert.Equal(t, info.Parameters, rebuilt.Parameters)
	assert.Equal(t, info.Returns, rebuilt.Returns)
	assert.Equal(t, 2, analyzer.CacheSize())

	t.Run("nil constructors", func(t *testing.T) {
		var typedNil func() *forgetA
		assert.False(t, analyzer.Forget(nil))
		assert.False(t, analyzer.Forget(typedNil))
		assert.Equal(t, 2, analyzer.CacheSize())
	})

	t.Run("closures of one literal share the entry", func(t *testing.T) {
		var calls atomic.Int32
		first, second := newForgetA("first", &calls), newForgetA("second", &calls)

		analyzer := reflection.New()
		_, err := analyzer.Analyze(first)
		require.NoError(t, err)
		_, err = analyzer.Analyze(second)
		require.NoError(t, err)
		require.Equal(t, 1, analyzer.CacheSize())

		assert.True(t, analyzer.Forget(second))
		assert.False(t, analyzer.Forget(first))
		assert.Zero(t, calls.Load(), "forgetting never invokes anything")
	})

	t.Run("same code pointer, different type", func(t *testing.T) {
		analyzer := reflection.New()
		_, err := analyzer.Analyze(forgetFactoryA{}.Build)
		require.NoError(t, err)
		_, err = analyzer.Analyze(forgetFactoryB{}.Build)
		require.NoError(t, err)
		_, err = analyzer.Analyze(&forgetA{})
		require.NoError(t, err)
		_, err = analyzer.Analyze(&forgetB{})
		require.NoError(t, err)
		require.Equal(t, 4, analyzer.CacheSize())

		assert.True(t, analyzer.Forget(forgetFactoryA{}.Build))
		assert.True(t, analyzer.Forget(&forgetA{id: "any instance of the type"}))
		assert.Equal(t, 2, analyzer.CacheSize())
		assert.True(t, analyzer.Forget(forgetFactoryB{}.Build))
		assert.True(t, analyzer.Forget(&forgetB{}))
		assert.Zero(t, analyzer.CacheSize())
	})
}

func TestCollectionRemove_ForgetsTheAnalysis(t *testing.T) {
	c := NewCollection().(*collection)

	t.Run("add and remove cycles keep the analyzer bounded", func(t *testing.T) {
		require.NoError(t, c.AddSingleton(NewTDependency))
		base := c.analyzer.CacheSize()

		for i := 0; i < 50; i++ {
			require.NoError(t, c.AddScoped(newForgetB))
			require.NoError(t, c.AddTransient(NewTService, Name("svc")))
			require.NoError(t, c.AddSingleton(&forgetA{id: "instance"}))
			assert.Equal(t, base+3, c.analyzer.CacheSize())

			c.Remove(PtrTypeOf[forgetB]())
			c.RemoveKeyed(PtrTypeOf[TService](), "svc")
			c.Remove(PtrTypeOf[forgetA]())
			assert.Equal(t, base, c.analyzer.CacheSize())
			assert.Equal(t, 1, c.Count())
		}

		// Removing something that is not registered changes nothing
		c.Remove(PtrTypeOf[forgetB]())
		assert.Equal(t, base, c.analyzer.CacheSize())
		assert.True(t, c.Contains(PtrTypeOf[TDependency]()))
	})

	t.Run("registrations sharing the forgotten analysis still build correctly", func(t *testing.T) {
		var removedCalls, keptCalls atomic.Int32

		c := NewCollection().(*collection)
		require.NoError(t, c.AddSingleton(newForgetA("removed", &removedCalls), Name("removed")))
		require.NoError(t, c.AddSingleton(newForgetA("kept", &keptCalls), Name("kept")))
		require.NoError(t, c.AddSingleton(newForgetA("alias", &keptCalls), As[forgetNamer](), As[TInterface]()))
		require.NoError(t, c.AddScoped(func(in struct {
			In
			A *forgetA `name:"kept"`
		}) *forgetB {
			return &forgetB{a: in.A}
		}))

		// Drops the entry the two other closures and both aliases share
		c.RemoveKeyed(PtrTypeOf[forgetA](), "removed")
		c.Remove(TypeOf[TInterface]())
		assert.False(t, c.ContainsKeyed(PtrTypeOf[forgetA](), "removed"))
		assert.Equal(t, 3, c.Count())

		provider, err := c.Build()
		require.NoError(t, err)
		defer provider.Close()

		assert.Zero(t, removedCalls.Load(), "a removed constructor never runs")
		assert.Equal(t, int32(2), keptCalls.Load(), "each remaining singleton constructor ran once")

		kept := RequireResolveKeyed[*forgetA](t, provider, "kept")
		assert.Equal(t, "kept", kept.id)
		namer := RequireResolve[forgetNamer](t, provider)
		assert.Equal(t, "alias", namer.GetID())

		_, err = ResolveKeyed[*forgetA](provider, "removed")
		assert.ErrorIs(t, err, ErrServiceNotFound)
		_, err = Resolve[TInterface](provider)
		assert.ErrorIs(t, err, ErrServiceNotFound)

		scope, err := provider.CreateScope(nil)
		require.NoError(t, err)
		defer scope.Close()
		assert.Same(t, kept, RequireResolveFrom[*forgetB](t, scope).a)
		assert.Equal(t, int32(2), keptCalls.Load())

		// A second build after re-adding behaves like the first
		require.NoError(t, c.AddSingleton(newForgetA("again", &removedCalls), Name("removed")))
		second, err := c.Build()
		require.NoError(t, err)
		defer second.Close()
		assert.Equal(t, "again", RequireResolveKeyed[*forgetA](t, second, "removed").id)
		assert.Equal(t, int32(1), removedCalls.Load())
	})
}

func TestCollectionRemove_BuiltProviderUnaffected(t *testing.T) {
	var transientCalls atomic.Int32

	c := NewCollection().(*collection)
	require.NoError(t, c.AddTransient(newForgetA("transient", &transientCalls)))
	require.NoError(t, c.AddScoped(newForgetB))
	require.NoError(t, c.AddScoped(NewTDisposable))

	provider, err := c.Build()
	require.NoError(t, err)
	defer provider.Close()

	// Resolve from many scopes while the collection drops (and re-adds) the
	// registrations whose analyses the provider shares
	var wg sync.WaitGroup
	stop := make(chan struct{})
	failures := make(chan string, 64)
	for g := 0; g < 8; g++ {
		wg.Add(1)
		go func() {
			defer wg.Done()
			for {
				select {
				case <-stop:
					return
				default:
				}

				scope, err := provider.CreateScope(nil)
				if err != nil {
					failures <- err.Error()
					return
				}

				b1, err1 := Resolve[*forgetB](scope)
				b2, err2 := Resolve[*forgetB](scope)
				a, err3 := Resolve[*forgetA](scope)
				d, err4 := Resolve[*TDisposable](scope)
				switch {
				case err1 != nil || err2 != nil || err3 != nil || err4 != nil:
					failures <- fmt.Sprint(err1, err2, err3, err4)
				case b1 != b2:
					failures <- "two scoped instances in one scope"
				case a == b1.a:
					failures <- "transient instance handed out twice"
				}

				if err := scope.Close(); err != nil {
					failures <- err.Error()
				}
				if d != nil && !d.IsClosed() {
					failures <- "scoped disposable not closed with its scope"
				}
			}
		}()
	}

	var unused atomic.Int32
	for i := 0; i < 200; i++ {
		c.Remove(PtrTypeOf[forgetA]())
		c.Remove(PtrTypeOf[forgetB]())
		c.Remove(PtrTypeOf[TDisposable]())
		require.Zero(t, c.Count())
		require.NoError(t, c.AddTransient(newForgetA("later", &unused)))
		require.NoError(t, c.AddScoped(newForgetB))
		require.NoError(t, c.AddScoped(NewTDisposable))
	}
	close(stop)
	wg.Wait()
	close(failures)

	for failure := range failures {
		t.Error(failure)
	}
	assert.Zero(t, unused.Load(), "registrations made after Build never reach the provider")
	assert.Positive(t, transientCalls.Load())
}
