package graph_test

import (
	"errors"
	"fmt"
	"reflect"
	"sort"
	"strings"
	"sync"
	"testing"

	"github.com/junioryono/godi/v4/internal/graph"
	"github.com/junioryono/godi/v4/internal/reflection"
	"github.com/stretchr/testify/assert"
	"github.com/stretchr/testify/require"
)

// apProvider is a minimal graph.Provider for the AddProviders tests.
type apProvider struct {
	typ   reflect.Type
	key   any
	group string
	deps  []*reflection.Dependency
}

func (p *apProvider) GetType() reflect.Type                     { return p.typ }
func (p *apProvider) GetKey() any                               { return p.key }
func (p *apProvider) GetGroup() string                          { return p.group }
func (p *apProvider) GetDependencies() []*reflection.Dependency { return p.deps }

type (
	apA struct{}
	apB struct{}
	apC struct{}
	apD struct{}
	apE struct{}
	apH interface{ Handle() }
)

var (
	apTypeA = reflect.TypeOf(apA{})
	apTypeB = reflect.TypeOf(apB{})
	apTypeC = reflect.TypeOf(apC{})
	apTypeD = reflect.TypeOf(apD{})
	apTypeE = reflect.TypeOf(apE{})
	apTypeH = reflect.TypeOf((*apH)(nil)).Elem()
)

func apNode(t reflect.Type, deps ...reflect.Type) *apProvider {
	p := &apProvider{typ: t}
	for _, d := range deps {
		p.deps = append(p.deps, &reflection.Dependency{Type: d})
	}
	return p
}

func apKeyText(k graph.NodeKey) string { return fmt.Sprintf("%v|%v|%s", k.Type, k.Key, k.Group) }

func apSorted(keys []graph.NodeKey) []string {
	out := make([]string, 0, len(keys))
	for _, k := range keys {
		out = append(out, apKeyText(k))
	}
	sort.Strings(out)
	return out
}

// apUniverse is every identity the tests use.
var apUniverse = []graph.NodeKey{
	{Type: apTypeA}, {Type: apTypeB}, {Type: apTypeC}, {Type: apTypeD}, {Type: apTypeE},
	{Type: apTypeA, Key: "k"},
	{Type: apTypeH, Group: "hs"},
	{Type: apTypeH, Key: "m1", Group: "hs"},
	{Type: apTypeH, Key: "m2", Group: "hs"},
}

// apState renders everything the graph's queries can tell about it.
func apState(t *testing.T, g *graph.DependencyGraph) map[string]any {
	t.Helper()

	// IsAcyclic relinks groups and recomputes degrees, so it is asked last:
	// everything before it is seen exactly as the last mutation left it.
	state := map[string]any{"size": g.Size()}
	for _, k := range apUniverse {
		name := apKeyText(k)
		state[name+" has"] = g.HasNode(k.Type, k.Key, k.Group)
		if node := g.GetNode(k.Type, k.Key, k.Group); node != nil {
			state[name+" node"] = fmt.Sprintf("%p", node) // identity of the node object
			state[name+" provider"] = fmt.Sprintf("%p", node.Provider)
			state[name+" in"] = node.InDegree
			state[name+" out"] = node.OutDegree
			state[name+" nodeDeps"] = apSorted(node.Dependencies)
			state[name+" nodeDependents"] = apSorted(node.Dependents)
		}
		state[name+" deps"] = apSorted(g.GetDependencies(k.Type, k.Key, k.Group))
		state[name+" dependents"] = apSorted(g.GetDependents(k.Type, k.Key, k.Group))
		state[name+" transitive"] = apSorted(g.GetTransitiveDependencies(k.Type, k.Key, k.Group))
	}

	var roots, leaves []graph.NodeKey
	for _, n := range g.GetRoots() {
		roots = append(roots, n.Key)
	}
	for _, n := range g.GetLeaves() {
		leaves = append(leaves, n.Key)
	}
	state["roots"] = apSorted(roots)
	state["leaves"] = apSorted(leaves)

	if sorted, err := g.TopologicalSort(); err == nil {
		require.Len(t, sorted, g.Size())
		seen := make(map[graph.NodeKey]bool)
		for _, n := range sorted {
			for _, dep := range n.Dependencies {
				require.True(t, seen[dep], "%v sorted before its dependency %v", n.Key, dep)
			}
			seen[n.Key] = true
		}
		state["sortable"] = true
	} else {
		state["sortable"] = false
	}
	state["acyclic"] = g.IsAcyclic()
	return state
}

// apStripNodes drops object identities so that two graphs can be compared.
func apStripNodes(state map[string]any) map[string]any {
	out := make(map[string]any, len(state))
	for k, v := range state {
		if !strings.HasSuffix(k, " node") {
			out[k] = v
		}
	}
	return out
}

func TestAddProviders_EqualsSequentialAdds(t *testing.T) {
	a, b, c := apNode(apTypeA), apNode(apTypeB, apTypeA), apNode(apTypeC, apTypeB, apTypeD)
	m1 := &apProvider{typ: apTypeH, key: "m1", group: "hs", deps: []*reflection.Dependency{{Type: apTypeA, Key: "k"}}}
	m2 := &apProvider{typ: apTypeH, key: "m2", group: "hs"}
	e := &apProvider{typ: apTypeE, deps: []*reflection.Dependency{{Type: apTypeH, Group: "hs"}}}
	// The batch replaces its own first entry at the end
	a2 := apNode(apTypeA, apTypeD)
	batch := []graph.Provider{a, e, m1, c, b, m2, a2}

	batched := graph.NewDependencyGraph()
	require.NoError(t, batched.AddProviders(batch...))

	sequential := graph.NewDependencyGraph()
	for _, p := range batch {
		require.NoError(t, sequential.AddProvider(p))
	}

	assert.Equal(t, apStripNodes(apState(t, sequential)), apStripNodes(apState(t, batched)))
	assert.Same(t, a2, batched.GetNode(apTypeA, nil, "").Provider)
	assert.Equal(t,
		apSorted([]graph.NodeKey{{Type: apTypeH, Key: "m1", Group: "hs"}, {Type: apTypeH, Key: "m2", Group: "hs"}}),
		apSorted(batched.GetDependencies(apTypeH, nil, "hs")))
}

func TestAddProviders_NilAndEmpty(t *testing.T) {
	g := graph.NewDependencyGraph()
	require.NoError(t, g.AddProvider(apNode(apTypeA)))
	before := apState(t, g)

	require.NoError(t, g.AddProviders())
	assert.Equal(t, before, apState(t, g))

	// A nil anywhere rejects the batch before anything is added
	err := g.AddProviders(apNode(apTypeB, apTypeA), nil, apNode(apTypeC))
	require.Error(t, err)
	assert.Contains(t, err.Error(), "cannot be nil")
	assert.Equal(t, before, apState(t, g))
}

func TestAddProviders_RollsBackCompletely(t *testing.T) {
	g := graph.NewDependencyGraph()
	oldA := apNode(apTypeA)
	oldB := apNode(apTypeB, apTypeA)
	m1 := &apProvider{typ: apTypeH, key: "m1", group: "hs"}
	oldE := &apProvider{typ: apTypeE, deps: []*reflection.Dependency{{Type: apTypeH, Group: "hs"}}}
	for _, p := range []graph.Provider{oldA, oldB, m1, oldE} {
		require.NoError(t, g.AddProvider(p))
	}

	// Warm the caches so that a stale one would show
	_, err := g.TopologicalSort()
	require.NoError(t, err)
	require.NoError(t, g.DetectCycles())
	before := apState(t, g)

	// The batch replaces B (with a new placeholder for the keyed A), adds C
	// (with a new placeholder D), the keyed A, a new group member - and only
	// then closes a cycle A -> C -> B(new) -> A.
	batch := []graph.Provider{
		&apProvider{typ: apTypeB, deps: []*reflection.Dependency{{Type: apTypeA}, {Type: apTypeA, Key: "k"}}},
		apNode(apTypeC, apTypeB, apTypeD),
		&apProvider{typ: apTypeA, key: "k"},
		&apProvider{typ: apTypeH, key: "m2", group: "hs", deps: []*reflection.Dependency{{Type: apTypeC}}},
		apNode(apTypeA, apTypeC),
		apNode(apTypeD),
	}
	err = g.AddProviders(batch...)

	var cErr *graph.CircularDependencyError
	require.True(t, errors.As(err, &cErr))
	assert.GreaterOrEqual(t, len(cErr.Path), 2)

	// Nothing of the batch is left: same nodes (the very same objects), same
	// providers, same edges, degrees, group links, roots, leaves, verdicts.
	assert.Equal(t, before, apState(t, g))
	assert.Same(t, oldA, g.GetNode(apTypeA, nil, "").Provider)
	assert.Same(t, oldB, g.GetNode(apTypeB, nil, "").Provider)
	assert.False(t, g.HasNode(apTypeC, nil, ""))
	assert.False(t, g.HasNode(apTypeD, nil, ""))
	assert.False(t, g.HasNode(apTypeA, "k", ""))
	assert.False(t, g.HasNode(apTypeH, "m2", "hs"))
	assert.Equal(t, apSorted([]graph.NodeKey{{Type: apTypeH, Key: "m1", Group: "hs"}}),
		apSorted(g.GetDependencies(apTypeH, nil, "hs")))
	assert.NoError(t, g.DetectCycles())

	// The same batch without the offending entry goes through afterwards
	require.NoError(t, g.AddProviders(append(batch[:4:4], batch[5])...))
	assert.Equal(t, 9, g.Size())
	assert.NoError(t, g.DetectCycles())
	assert.Equal(t, apSorted([]graph.NodeKey{{Type: apTypeA}, {Type: apTypeA, Key: "k"}}),
		apSorted(g.GetDependencies(apTypeB, nil, "")))
}

func TestAddProviders_ChecksAfterEveryAddition(t *testing.T) {
	// A loop over AddProvider would reject the second entry; that the last
	// entry would repair the cycle does not matter.
	g := graph.NewDependencyGraph()
	err := g.AddProviders(apNode(apTypeA, apTypeB), apNode(apTypeB, apTypeA), apNode(apTypeA))

	var cErr *graph.CircularDependencyError
	require.True(t, errors.As(err, &cErr))
	assert.Equal(t, 0, g.Size())
	assert.Empty(t, g.GetRoots())

	sorted, err := g.TopologicalSort()
	require.NoError(t, err)
	assert.Empty(t, sorted)

	// Self dependency on an empty graph
	require.Error(t, g.AddProviders(apNode(apTypeC), apNode(apTypeD, apTypeD)))
	assert.Equal(t, 0, g.Size())
}

func TestAddProviders_RollbackAfterDeferredAdds(t *testing.T) {
	// The graph was filled with deferred adds and completed; a failing batch
	// must bring it back to that state.
	g := graph.NewDependencyGraph()
	require.NoError(t, g.AddProviderDeferred(apNode(apTypeA)))
	require.NoError(t, g.AddProviderDeferred(apNode(apTypeB, apTypeA)))
	require.NoError(t, g.DetectCycles())
	before := apState(t, g)

	require.Error(t, g.AddProviders(apNode(apTypeC, apTypeB), apNode(apTypeA, apTypeC)))
	assert.Equal(t, before, apState(t, g))
}

func TestAddProviders_ConcurrentReadersSeeAllOrNothing(t *testing.T) {
	g := graph.NewDependencyGraph()
	require.NoError(t, g.AddProvider(apNode(apTypeA)))

	good := []graph.Provider{apNode(apTypeB, apTypeA), apNode(apTypeC, apTypeB), apNode(apTypeD, apTypeC)}
	bad := []graph.Provider{apNode(apTypeB, apTypeA), apNode(apTypeE, apTypeB), apNode(apTypeA, apTypeE)}

	var wg sync.WaitGroup
	stop := make(chan struct{})

	for r := 0; r < 3; r++ {
		wg.Add(1)
		go func() {
			defer wg.Done()
			for {
				select {
				case <-stop:
					return
				default:
				}
				// 1 = only A, 4 = A plus the complete good batch; a failing
				// batch never shows and never leaves E behind
				size := g.Size()
				assert.True(t, size >= 1 && size <= 4, "size %d", size)
				assert.False(t, g.HasNode(apTypeE, nil, ""))
				assert.Empty(t, g.GetDependencies(apTypeA, nil, ""))
				_, _ = g.TopologicalSort()
			}
		}()
	}

	for i := 0; i < 200; i++ {
		require.NoError(t, g.AddProviders(good...))
		require.Equal(t, 4, g.Size())
		require.Error(t, g.AddProviders(bad...))
		require.Equal(t, 4, g.Size())
		g.RemoveProvider(apTypeD, nil, "")
		g.RemoveProvider(apTypeC, nil, "")
		g.RemoveProvider(apTypeB, nil, "")
	}
	close(stop)
	wg.Wait()

	assert.True(t, g.IsAcyclic())
	assert.Equal(t, 1, g.Size())
}
