package godi

import (
	"errors"
	"sync/atomic"
	"testing"

	"github.com/stretchr/testify/assert"
	"github.com/stretchr/testify/require"
)

// dmStore / dmAPI are the services of the described modules.
type dmStore struct{ Name string }

type dmAPI struct{ Store *dmStore }

func newDMAPI(s *dmStore) *dmAPI { return &dmAPI{Store: s} }

func dmStoreCtor(name string, calls *atomic.Int32) func() *dmStore {
	return func() *dmStore {
		calls.Add(1)
		return &dmStore{Name: name}
	}
}

type dmListed struct {
	Type     any
	Key      any
	Group    string
	Lifetime Lifetime
}

func dmList(descriptors []*Descriptor) []dmListed {
	out := make([]dmListed, 0, len(descriptors))
	for _, d := range descriptors {
		key := d.Key
		if d.VoidReturn {
			key = "<generated>"
		}
		out = append(out, dmListed{Type: d.Type, Key: key, Group: d.Group, Lifetime: d.Lifetime})
	}
	return out
}

func TestModuleDescribe(t *testing.T) {
	t.Parallel()

	storeType := PtrTypeOf[dmStore]()

	t.Run("lists_what_the_module_would_register", func(t *testing.T) {
		t.Parallel()
		var calls atomic.Int32
		var initCalls atomic.Int32

		storage := NewModule("storage",
			AddSingleton(dmStoreCtor("main", &calls)),
			AddSingleton(dmStoreCtor("replica", &calls), Name("replica")),
			nil,
			AddTransient(dmStoreCtor("g1", &calls), Group("stores")),
			AddTransient(dmStoreCtor("g2", &calls), Group("stores")),
		)
		app := NewModule("app",
			storage,
			NewModule("web",
				AddScoped(newDMAPI),
				AddScoped(func(*dmAPI) { initCalls.Add(1) }),
				AddSingleton(NewTService, As[TInterface]()),
				AddSingleton(NewTMultiReturnWithError, Name("ignored-for-second-output")),
			),
		)

		desc, err := app.Describe()
		require.NoError(t, err)
		require.NotNil(t, desc)
		assert.Empty(t, desc.Removals)

		// The description equals what a real collection holds after the module
		reference := NewCollection()
		require.NoError(t, reference.AddModules(app))
		assert.Equal(t, dmList(reference.ToSlice()), dmList(desc.Services))
		assert.Len(t, desc.Services, 9)

		// group members keep their order and numbering
		assert.Equal(t, "stores", desc.Services[2].Group)
		assert.Equal(t, 1, desc.Services[2].Key)
		assert.Equal(t, 2, desc.Services[3].Key)

		assert.Equal(t, int32(0), calls.Load(), "describing runs no constructor")
		assert.Equal(t, int32(0), initCalls.Load(), "describing runs no initializer")

		// Describing twice gives the same answer and leaves no state behind
		again, err := app.Describe()
		require.NoError(t, err)
		assert.Equal(t, dmList(desc.Services), dmList(again.Services))
		assert.NotSame(t, desc.Services[0], again.Services[0])
	})

	t.Run("does_not_touch_the_callers_collections", func(t *testing.T) {
		t.Parallel()
		var calls atomic.Int32

		module := NewModule("m",
			Remove[*dmStore](),
			AddSingleton(dmStoreCtor("mock", &calls)),
		)

		c := NewCollection()
		require.NoError(t, c.AddSingleton(dmStoreCtor("real", &calls)))
		before := c.ToSlice()

		desc, err := module.Describe()
		require.NoError(t, err)
		require.Len(t, desc.Services, 1)
		assert.Equal(t, before, c.ToSlice())

		// The description is detached from a later real application: the
		// real collection gets descriptors of its own
		require.NoError(t, c.AddModules(module))
		require.Equal(t, 1, c.Count())
		assert.NotSame(t, desc.Services[0], c.ToSlice()[0])

		// Tampering with the description has no effect on that collection
		desc.Services[0].Lifetime = Transient
		desc.Services[0].Type = PtrTypeOf[TService]()

		p, err := c.Build()
		require.NoError(t, err)
		t.Cleanup(func() { _ = p.Close() })
		assert.Equal(t, "mock", RequireResolve[*dmStore](t, p).Name)
		assert.Same(t, RequireResolve[*dmStore](t, p), RequireResolve[*dmStore](t, p))
		assert.Equal(t, int32(1), calls.Load())
	})

	t.Run("records_removals", func(t *testing.T) {
		t.Parallel()
		var calls atomic.Int32

		module := NewModule("testing",
			AddSingleton(dmStoreCtor("first", &calls)),
			AddSingleton(dmStoreCtor("replica", &calls), Name("replica")),
			NewModule("swap",
				Remove[*dmStore](),
				RemoveKeyed[*TService]("elsewhere"),
				AddScoped(dmStoreCtor("second", &calls)),
			),
		)

		desc, err := module.Describe()
		require.NoError(t, err)

		assert.Equal(t, []TypeKey{
			{Type: storeType},
			{Type: PtrTypeOf[TService](), Key: "elsewhere"},
		}, desc.Removals)

		// Remove acts on what the module itself registered before, as it
		// would on a real collection: the net result is listed
		assert.Equal(t, []dmListed{
			{Type: storeType, Key: "replica", Lifetime: Singleton},
			{Type: storeType, Lifetime: Scoped},
		}, dmList(desc.Services))

		reference := NewCollection()
		require.NoError(t, reference.AddModules(module))
		assert.Equal(t, dmList(reference.ToSlice()), dmList(desc.Services))
	})

	t.Run("modules_applied_through_AddModules_are_recorded_too", func(t *testing.T) {
		t.Parallel()
		var calls atomic.Int32

		inner := NewModule("inner",
			Remove[*TService](),
			AddSingleton(dmStoreCtor("inner", &calls)),
		)
		outer := ModuleOption(func(c Collection) error {
			return c.AddModules(nil, inner, AddScoped(newDMAPI))
		})

		desc, err := outer.Describe()
		require.NoError(t, err)
		assert.Equal(t, []TypeKey{{Type: PtrTypeOf[TService]()}}, desc.Removals)
		assert.Equal(t, []dmListed{
			{Type: storeType, Lifetime: Singleton},
			{Type: PtrTypeOf[dmAPI](), Lifetime: Scoped},
		}, dmList(desc.Services))
	})

	t.Run("failing_registration_stops_processing", func(t *testing.T) {
		t.Parallel()
		var calls atomic.Int32

		module := NewModule("outer",
			AddSingleton(dmStoreCtor("kept", &calls)),
			NewModule("inner",
				Remove[*TService](),
				AddSingleton(dmStoreCtor("duplicate", &calls)),
				AddScoped(newDMAPI),
			),
			AddTransient(NewTDependency),
		)

		desc, err := module.Describe()
		require.Error(t, err)
		require.NotNil(t, desc)

		// same error, wrapped the same way, as the real thing
		realErr := NewCollection().AddModules(module)
		require.Error(t, realErr)
		assert.Equal(t, realErr.Error(), err.Error())

		var outer ModuleError
		require.ErrorAs(t, err, &outer)
		assert.Equal(t, "outer", outer.Module)
		var inner ModuleError
		require.True(t, errors.As(outer.Cause, &inner))
		assert.Equal(t, "inner", inner.Module)
		var already *AlreadyRegisteredError
		assert.ErrorAs(t, err, &already)

		// what happened before the failure is reported
		assert.Equal(t, []dmListed{{Type: storeType, Lifetime: Singleton}}, dmList(desc.Services))
		assert.Equal(t, []TypeKey{{Type: PtrTypeOf[TService]()}}, desc.Removals)
	})

	t.Run("nil_and_empty_modules", func(t *testing.T) {
		t.Parallel()

		desc, err := ModuleOption(nil).Describe()
		require.NoError(t, err)
		assert.Empty(t, desc.Services)
		assert.Empty(t, desc.Removals)

		desc, err = NewModule("empty").Describe()
		require.NoError(t, err)
		assert.Empty(t, desc.Services)
		assert.Empty(t, desc.Removals)

		// nil types are ignored by Remove, hence not recorded
		desc, err = ModuleOption(func(c Collection) error {
			c.Remove(nil)
			c.RemoveKeyed(nil, "k")
			return nil
		}).Describe()
		require.NoError(t, err)
		assert.Empty(t, desc.Removals)
	})

	t.Run("a_described_module_cannot_build", func(t *testing.T) {
		t.Parallel()
		var calls atomic.Int32

		module := NewModule("eager",
			AddSingleton(dmStoreCtor("main", &calls)),
			func(c Collection) error {
				p, err := c.Build()
				if err != nil {
					return err
				}
				return p.Close()
			},
		)

		desc, err := module.Describe()
		require.ErrorIs(t, err, ErrModuleDescribeBuild)
		var modErr ModuleError
		require.ErrorAs(t, err, &modErr)
		var buildErr *BuildError
		require.ErrorAs(t, err, &buildErr)
		assert.Len(t, desc.Services, 1)
		assert.Equal(t, int32(0), calls.Load(), "no constructor ran")

		_, err = ModuleOption(func(c Collection) error {
			_, err := c.BuildWithOptions(nil)
			return err
		}).Describe()
		assert.ErrorIs(t, err, ErrModuleDescribeBuild)

		_, err = ModuleOption(func(c Collection) error {
			_, err := c.BuildWithContext(nil)
			return err
		}).Describe()
		assert.ErrorIs(t, err, ErrModuleDescribeBuild)

		// on a real collection the same module builds fine
		require.NoError(t, NewCollection().AddModules(module))
		assert.Equal(t, int32(1), calls.Load())
	})

	t.Run("concurrent_describes_share_nothing", func(t *testing.T) {
		t.Parallel()
		var calls atomic.Int32

		module := NewModule("shared",
			AddSingleton(dmStoreCtor("main", &calls)),
			Remove[*TService](),
			AddScoped(newDMAPI),
		)

		done := make(chan *ModuleDescription, 8)
		for i := 0; i < 8; i++ {
			go func() {
				desc, err := module.Describe()
				assert.NoError(t, err)
				done <- desc
			}()
		}
		for i := 0; i < 8; i++ {
			desc := <-done
			require.NotNil(t, desc)
			assert.Len(t, desc.Services, 2)
			assert.Len(t, desc.Removals, 1)
		}
		assert.Equal(t, int32(0), calls.Load())
	})
}
