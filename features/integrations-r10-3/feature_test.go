package gin

import (
	"errors"
	"net/http"
	"net/http/httptest"
	"sync"
	"sync/atomic"
	"testing"

	"github.com/gin-gonic/gin"
	"github.com/junioryono/godi/v4"
	"github.com/stretchr/testify/assert"
	"github.com/stretchr/testify/require"
)

// unitOfWork is a scoped, disposable dependency.
type unitOfWork struct {
	closed *atomic.Int32
}

func (u *unitOfWork) Close() error {
	u.closed.Add(1)
	return nil
}

// exporter is a keyed scoped service resolved on demand by the controller.
type exporter struct {
	format string
	uow    *unitOfWork
}

// scopeController is a scoped controller receiving the scope per call.
type scopeController struct {
	uow *unitOfWork
}

type scopeCall struct {
	ctrl  *scopeController
	scope godi.Scope
	exp   *exporter
}

func newScopeTestProvider(t *testing.T, closed, ctrlBuilt *atomic.Int32) godi.Provider {
	t.Helper()
	collection := godi.NewCollection()
	require.NoError(t, collection.AddScoped(func() *unitOfWork { return &unitOfWork{closed: closed} }))
	require.NoError(t, collection.AddScoped(func(u *unitOfWork) *scopeController {
		ctrlBuilt.Add(1)
		return &scopeController{uow: u}
	}))
	require.NoError(t, collection.AddScoped(func(u *unitOfWork) *exporter {
		return &exporter{format: "csv", uow: u}
	}, godi.Name("csv")))
	provider, err := collection.Build()
	require.NoError(t, err)
	t.Cleanup(func() { _ = provider.Close() })
	return provider
}

func TestHandleWithScope(t *testing.T) {
	t.Run("passes the request scope the controller was resolved from", func(t *testing.T) {
		var closed, ctrlBuilt atomic.Int32
		provider := newScopeTestProvider(t, &closed, &ctrlBuilt)

		var mwScope godi.Scope
		var call scopeCall

		g := gin.New()
		g.Use(ScopeMiddleware(provider, WithMiddleware(func(scope godi.Scope, c *gin.Context) error {
			mwScope = scope
			return nil
		})))
		g.GET("/export", HandleWithScope(func(ctrl *scopeController, scope godi.Scope, c *gin.Context) {
			exp, err := godi.ResolveKeyed[*exporter](scope, "csv")
			require.NoError(t, err)
			call = scopeCall{ctrl: ctrl, scope: scope, exp: exp}

			fromCtx, err := ScopeFrom(c)
			require.NoError(t, err)
			assert.Same(t, scope, fromCtx)

			// Resolving the controller again yields the injected instance.
			again, err := godi.Resolve[*scopeController](scope)
			require.NoError(t, err)
			assert.Same(t, ctrl, again)

			assert.Equal(t, int32(0), closed.Load(), "scope still open inside the method")
			c.String(http.StatusOK, exp.format)
		}))

		w := httptest.NewRecorder()
		g.ServeHTTP(w, httptest.NewRequest(http.MethodGet, "/export", nil))

		assert.Equal(t, http.StatusOK, w.Code)
		assert.Equal(t, "csv", w.Body.String())
		assert.Same(t, mwScope, call.scope)
		assert.Same(t, call.ctrl.uow, call.exp.uow, "one scoped instance per request scope")
		assert.Equal(t, int32(1), ctrlBuilt.Load())
		assert.Equal(t, int32(1), closed.Load(), "closed once by the middleware")

		_, err := godi.Resolve[*scopeController](call.scope)
		assert.ErrorIs(t, err, godi.ErrScopeDisposed)
	})

	t.Run("without the middleware only the scope error handler runs", func(t *testing.T) {
		var scopeErrs, resolveErrs atomic.Int32
		var called atomic.Bool

		g := gin.New()
		g.GET("/x", HandleWithScope(
			func(*scopeController, godi.Scope, *gin.Context) { called.Store(true) },
			WithScopeErrorHandler(func(c *gin.Context, err error) {
				scopeErrs.Add(1)
				assert.Error(t, err)
				c.AbortWithStatus(http.StatusTeapot)
			}),
			WithResolutionErrorHandler(func(c *gin.Context, err error) { resolveErrs.Add(1) }),
		))

		w := httptest.NewRecorder()
		g.ServeHTTP(w, httptest.NewRequest(http.MethodGet, "/x", nil))

		assert.Equal(t, http.StatusTeapot, w.Code)
		assert.Equal(t, int32(1), scopeErrs.Load())
		assert.Equal(t, int32(0), resolveErrs.Load())
		assert.False(t, called.Load())
	})

	t.Run("resolution failure runs only the resolution error handler", func(t *testing.T) {
		boom := errors.New("constructor failed")
		var closed atomic.Int32
		collection := godi.NewCollection()
		require.NoError(t, collection.AddScoped(func() *unitOfWork { return &unitOfWork{closed: &closed} }))
		require.NoError(t, collection.AddScoped(func(u *unitOfWork) (*scopeController, error) { return nil, boom }))
		provider, err := collection.Build()
		require.NoError(t, err)
		defer provider.Close()

		var scopeErrs, resolveErrs atomic.Int32
		var called atomic.Bool

		g := gin.New()
		g.Use(ScopeMiddleware(provider))
		g.GET("/x", HandleWithScope(
			func(*scopeController, godi.Scope, *gin.Context) { called.Store(true) },
			WithScopeErrorHandler(func(c *gin.Context, err error) { scopeErrs.Add(1) }),
			WithResolutionErrorHandler(func(c *gin.Context, err error) {
				resolveErrs.Add(1)
				assert.ErrorIs(t, err, boom)
				c.AbortWithStatus(http.StatusBadGateway)
			}),
		))

		w := httptest.NewRecorder()
		g.ServeHTTP(w, httptest.NewRequest(http.MethodGet, "/x", nil))

		assert.Equal(t, http.StatusBadGateway, w.Code)
		assert.Equal(t, int32(0), scopeErrs.Load())
		assert.Equal(t, int32(1), resolveErrs.Load())
		assert.False(t, called.Load())
		assert.Equal(t, int32(1), closed.Load(), "the dependency built on the way is still disposed")
	})

	t.Run("panics are swallowed only when recovery is enabled", func(t *testing.T) {
		var closed, ctrlBuilt atomic.Int32
		provider := newScopeTestProvider(t, &closed, &ctrlBuilt)

		method := func(*scopeController, godi.Scope, *gin.Context) { panic("kaboom") }
		var recovered any

		g := gin.New()
		g.Use(ScopeMiddleware(provider))
		g.GET("/recover", HandleWithScope(method,
			WithPanicRecovery(true),
			WithPanicHandler(func(c *gin.Context, v any) {
				recovered = v
				c.AbortWithStatus(http.StatusInternalServerError)
			}),
		))
		g.GET("/propagate", HandleWithScope(method))

		w := httptest.NewRecorder()
		g.ServeHTTP(w, httptest.NewRequest(http.MethodGet, "/recover", nil))
		assert.Equal(t, http.StatusInternalServerError, w.Code)
		assert.Equal(t, "kaboom", recovered)
		assert.Equal(t, int32(1), closed.Load())

		assert.PanicsWithValue(t, "kaboom", func() {
			g.ServeHTTP(httptest.NewRecorder(), httptest.NewRequest(http.MethodGet, "/propagate", nil))
		})
		assert.Equal(t, int32(2), closed.Load(), "scope closed on the panic path too")
	})

	t.Run("concurrent requests never share the scope or scoped instances", func(t *testing.T) {
		var closed, ctrlBuilt atomic.Int32
		provider := newScopeTestProvider(t, &closed, &ctrlBuilt)

		var mu sync.Mutex
		scopes := map[godi.Scope]struct{}{}
		uows := map[*unitOfWork]struct{}{}

		g := gin.New()
		g.Use(ScopeMiddleware(provider))
		g.GET("/x", HandleWithScope(func(ctrl *scopeController, scope godi.Scope, c *gin.Context) {
			exp, err := godi.ResolveKeyed[*exporter](scope, "csv")
			if assert.NoError(t, err) {
				assert.Same(t, ctrl.uow, exp.uow)
			}
			mu.Lock()
			scopes[scope] = struct{}{}
			uows[ctrl.uow] = struct{}{}
			mu.Unlock()
		}))

		const n = 40
		var wg sync.WaitGroup
		for i := 0; i < n; i++ {
			wg.Add(1)
			go func() {
				defer wg.Done()
				g.ServeHTTP(httptest.NewRecorder(), httptest.NewRequest(http.MethodGet, "/x", nil))
			}()
		}
		wg.Wait()

		assert.Len(t, scopes, n)
		assert.Len(t, uows, n)
		assert.Equal(t, int32(n), ctrlBuilt.Load())
		assert.Equal(t, int32(n), closed.Load())
	})
}

func TestScopeFrom(t *testing.T) {
	t.Run("nil context and missing request give an error, not a panic", func(t *testing.T) {
		scope, err := ScopeFrom(nil)
		assert.Nil(t, scope)
		assert.Error(t, err)

		c, _ := gin.CreateTestContext(httptest.NewRecorder())
		scope, err = ScopeFrom(c)
		assert.Nil(t, scope)
		assert.Error(t, err)
	})

	t.Run("request that did not pass the middleware", func(t *testing.T) {
		c, _ := gin.CreateTestContext(httptest.NewRecorder())
		c.Request = httptest.NewRequest(http.MethodGet, "/", nil)

		scope, err := ScopeFrom(c)
		assert.Nil(t, scope)
		var resErr *godi.ResolutionError
		assert.ErrorAs(t, err, &resErr)
	})

	t.Run("returns the request scope, also for nested child scopes", func(t *testing.T) {
		var closed, ctrlBuilt atomic.Int32
		provider := newScopeTestProvider(t, &closed, &ctrlBuilt)

		g := gin.New()
		g.Use(ScopeMiddleware(provider))
		g.GET("/x", func(c *gin.Context) {
			scope, err := ScopeFrom(c)
			require.NoError(t, err)
			viaContext, err := godi.FromContext(c.Request.Context())
			require.NoError(t, err)
			assert.Same(t, viaContext, scope)

			// A child scope put on the request is what ScopeFrom then reports.
			child, err := scope.CreateScope(c.Request.Context())
			require.NoError(t, err)
			c.Request = c.Request.WithContext(child.Context())
			got, err := ScopeFrom(c)
			require.NoError(t, err)
			assert.Same(t, child, got)

			parentUow, err := godi.Resolve[*unitOfWork](scope)
			require.NoError(t, err)
			childUow, err := godi.Resolve[*unitOfWork](got)
			require.NoError(t, err)
			assert.NotSame(t, parentUow, childUow)
		})

		g.ServeHTTP(httptest.NewRecorder(), httptest.NewRequest(http.MethodGet, "/x", nil))
		assert.Equal(t, int32(2), closed.Load(), "child closed with the request scope")
	})
}
