package godi

import (
	"context"
	"errors"
	"sync"
	"sync/atomic"
	"testing"

	"github.com/stretchr/testify/assert"
	"github.com/stretchr/testify/require"
)

func TestLazy(t *testing.T) {
	t.Parallel()

	t.Run("resolves_on_first_use_only", func(t *testing.T) {
		t.Parallel()
		var scopedCalls, transientCalls atomic.Int32
		p := BuildProvider(t,
			AddSingleton(NewTService),
			AddScoped(func() *TScoped { scopedCalls.Add(1); return NewTScoped() }),
			AddTransient(func() *TTransient { transientCalls.Add(1); return NewTTransient() }),
		)
		s, err := p.CreateScope(context.Background())
		require.NoError(t, err)

		singleton := NewLazy[*TService](s)
		scoped := NewLazy[*TScoped](s)
		transient := NewLazy[*TTransient](s)
		assert.False(t, scoped.Resolved())
		assert.Zero(t, scopedCalls.Load())
		assert.Zero(t, transientCalls.Load())

		sc, err := scoped.Get()
		require.NoError(t, err)
		assert.True(t, scoped.Resolved())
		again, err := scoped.Get()
		require.NoError(t, err)
		assert.Same(t, sc, again)
		assert.Same(t, sc, RequireResolveFrom[*TScoped](t, s))
		assert.EqualValues(t, 1, scopedCalls.Load())

		sg, err := singleton.Get()
		require.NoError(t, err)
		assert.Same(t, RequireResolve[*TService](t, p), sg)

		// One Lazy is one request site: one transient instance, its own
		tr, err := transient.Get()
		require.NoError(t, err)
		tr2, err := transient.Get()
		require.NoError(t, err)
		assert.Same(t, tr, tr2)
		assert.EqualValues(t, 1, transientCalls.Load())
		assert.NotSame(t, tr, RequireResolveFrom[*TTransient](t, s))
		other, err := NewLazy[*TTransient](s).Get()
		require.NoError(t, err)
		assert.NotSame(t, tr, other)
		assert.EqualValues(t, 3, transientCalls.Load())
	})

	t.Run("bound_to_its_scope", func(t *testing.T) {
		t.Parallel()
		p := BuildProvider(t, AddScoped(NewTScoped), AddScoped(NewTServiceWithID("k"), Name("k")))
		s1, err := p.CreateScope(context.Background())
		require.NoError(t, err)
		s2, err := p.CreateScope(context.Background())
		require.NoError(t, err)
		child, err := s1.CreateScope(context.Background())
		require.NoError(t, err)

		// Resolved already: the Lazy yields the scope's instance, not a second one
		want := RequireResolveFrom[*TScoped](t, s1)
		v1, err := NewLazy[*TScoped](s1).Get()
		require.NoError(t, err)
		assert.Same(t, want, v1)

		v2, err := NewLazy[*TScoped](s2).Get()
		require.NoError(t, err)
		vc, err := NewLazy[*TScoped](child).Get()
		require.NoError(t, err)
		vr, err := NewLazy[*TScoped](p).Get()
		require.NoError(t, err)
		assert.NotSame(t, v1, v2)
		assert.NotSame(t, v1, vc)
		assert.NotSame(t, v1, vr)
		assert.NotSame(t, v2, vr)
		assert.Same(t, v2, RequireResolveFrom[*TScoped](t, s2))
		assert.Same(t, vc, RequireResolveFrom[*TScoped](t, child))
		assert.Same(t, vr, RequireResolve[*TScoped](t, p))

		keyed, err := NewLazyKeyed[*TService](s1, "k").Get()
		require.NoError(t, err)
		assert.Same(t, RequireResolveKeyed[*TService](t, s1, "k"), keyed)

		_, err = NewLazyKeyed[*TService](s1, "other").Get()
		assert.ErrorIs(t, err, ErrServiceNotFound)
		_, err = NewLazyKeyed[*TService](s1, nil).Get()
		assert.ErrorIs(t, err, ErrServiceKeyNil)
		_, err = NewLazy[*TService](s1).Get()
		assert.ErrorIs(t, err, ErrServiceNotFound)
		_, err = NewLazy[*TService](nil).Get()
		assert.ErrorIs(t, err, ErrProviderNil)
		var nilLazy *Lazy[*TService]
		_, err = nilLazy.Get()
		assert.ErrorIs(t, err, ErrProviderNil)
		assert.False(t, nilLazy.Resolved())
	})

	t.Run("failure_is_not_remembered", func(t *testing.T) {
		t.Parallel()
		boom := errors.New("boom")
		var calls atomic.Int32
		s := BuildScope(t, AddScoped(func() (*TService, error) {
			if calls.Add(1) == 1 {
				return nil, boom
			}
			return &TService{ID: "ok"}, nil
		}))

		lazy := NewLazy[*TService](s)
		_, err := lazy.Get()
		require.ErrorIs(t, err, boom)
		assert.False(t, lazy.Resolved())

		svc, err := lazy.Get()
		require.NoError(t, err)
		assert.Equal(t, "ok", svc.ID)
		assert.Same(t, svc, RequireResolveFrom[*TService](t, s))
		_, err = lazy.Get()
		require.NoError(t, err)
		assert.EqualValues(t, 2, calls.Load())
	})

	t.Run("closed_scope_or_provider", func(t *testing.T) {
		t.Parallel()
		c := NewCollection()
		require.NoError(t, c.AddSingleton(NewTService))
		require.NoError(t, c.AddTransient(NewTDisposable))
		p, err := c.Build()
		require.NoError(t, err)
		s, err := p.CreateScope(context.Background())
		require.NoError(t, err)
		child, err := s.CreateScope(context.Background())
		require.NoError(t, err)

		resolved := NewLazy[*TDisposable](s)
		d, err := resolved.Get()
		require.NoError(t, err)
		unresolved := NewLazy[*TDisposable](s)
		inChild := NewLazy[*TService](child)
		_, err = inChild.Get()
		require.NoError(t, err)
		fromProvider := NewLazy[*TService](p)
		_, err = fromProvider.Get()
		require.NoError(t, err)

		require.NoError(t, s.Close())
		assert.True(t, d.IsClosed())

		// Resolved before or not, even a singleton: the scope is gone
		_, err = resolved.Get()
		assert.ErrorIs(t, err, ErrScopeDisposed)
		assert.False(t, resolved.Resolved())
		_, err = unresolved.Get()
		assert.ErrorIs(t, err, ErrScopeDisposed)
		_, err = inChild.Get()
		assert.ErrorIs(t, err, ErrScopeDisposed)
		_, err = NewLazy[*TService](s).Get()
		assert.ErrorIs(t, err, ErrScopeDisposed)

		_, err = fromProvider.Get()
		assert.NoError(t, err)
		require.NoError(t, p.Close())
		_, err = fromProvider.Get()
		assert.ErrorIs(t, err, ErrProviderDisposed)
		_, err = resolved.Get()
		assert.ErrorIs(t, err, ErrScopeDisposed)
	})

	t.Run("instances_are_owned_by_the_scope", func(t *testing.T) {
		t.Parallel()
		c := NewCollection()
		require.NoError(t, c.AddTransient(NewTDisposable))
		require.NoError(t, c.AddScoped(NewTDisposableWithName("scoped"), Name("scoped")))
		p, err := c.Build()
		require.NoError(t, err)
		defer p.Close()
		s, err := p.CreateScope(context.Background())
		require.NoError(t, err)
		other, err := p.CreateScope(context.Background())
		require.NoError(t, err)

		tr, err := NewLazy[*TDisposable](s).Get()
		require.NoError(t, err)
		sc, err := NewLazyKeyed[*TDisposable](s, "scoped").Get()
		require.NoError(t, err)
		otherTr, err := NewLazy[*TDisposable](other).Get()
		require.NoError(t, err)

		require.NoError(t, s.Close()) // TDisposable reports a second Close as an error
		assert.True(t, tr.IsClosed())
		assert.True(t, sc.IsClosed())
		assert.False(t, otherTr.IsClosed())
		require.NoError(t, p.Close())
		assert.True(t, otherTr.IsClosed())
	})

	t.Run("concurrent_get_resolves_once", func(t *testing.T) {
		t.Parallel()
		var calls atomic.Int32
		p := BuildProvider(t, AddTransient(func() *TDisposable { calls.Add(1); return NewTDisposable() }))
		s, err := p.CreateScope(context.Background())
		require.NoError(t, err)
		lazy := NewLazy[*TDisposable](s)

		var mu sync.Mutex
		seen := map[*TDisposable]struct{}{}
		var wg sync.WaitGroup
		for i := 0; i < 16; i++ {
			wg.Add(1)
			go func() {
				defer wg.Done()
				for j := 0; j < 20; j++ {
					d, err := lazy.Get()
					if assert.NoError(t, err) {
						mu.Lock()
						seen[d] = struct{}{}
						mu.Unlock()
					}
					_ = lazy.Resolved()
				}
			}()
		}
		wg.Wait()
		assert.Len(t, seen, 1)
		assert.EqualValues(t, 1, calls.Load())
	})

	t.Run("concurrent_get_and_close", func(t *testing.T) {
		t.Parallel()
		for round := 0; round < 20; round++ {
			c := NewCollection()
			require.NoError(t, c.AddScoped(NewTDisposable))
			p, err := c.Build()
			require.NoError(t, err)
			s, err := p.CreateScope(context.Background())
			require.NoError(t, err)
			lazy := NewLazy[*TDisposable](s)

			var mu sync.Mutex
			seen := map[*TDisposable]struct{}{}
			var wg sync.WaitGroup
			for i := 0; i < 6; i++ {
				wg.Add(1)
				go func(i int) {
					defer wg.Done()
					for j := 0; j < 10; j++ {
						if i == 0 && j == 3 {
							assert.NoError(t, s.Close())
						}
						d, err := lazy.Get()
						if err != nil {
							assert.ErrorIs(t, err, ErrScopeDisposed)
							continue
						}
						mu.Lock()
						seen[d] = struct{}{}
						mu.Unlock()
					}
				}(i)
			}
			wg.Wait()

			assert.LessOrEqual(t, len(seen), 1)
			for d := range seen {
				assert.True(t, d.IsClosed())
			}
			_, err = lazy.Get()
			assert.ErrorIs(t, err, ErrScopeDisposed)
			require.NoError(t, p.Close())
		}
	})
}
