package godi

import (
	"context"
	"errors"
	"runtime"
	"sync"
	"testing"
	"time"

	"github.com/stretchr/testify/assert"
	"github.com/stretchr/testify/require"
)

type scopeTimeoutCtxKey struct{}

// foreignCtx is a context the standard library cannot hook into: deriving a
// cancellable context from it starts a goroutine that lives until the derived
// context is cancelled. This makes a timeout context that was not released
// visible in the goroutine count.
type foreignCtx struct {
	context.Context
	done chan struct{}
}

func newForeignCtx() foreignCtx {
	return foreignCtx{Context: context.Background(), done: make(chan struct{})}
}

func (c foreignCtx) Done() <-chan struct{} { return c.done }

func (c foreignCtx) Err() error {
	select {
	case <-c.done:
		return context.Canceled
	default:
		return nil
	}
}

func liveScopes(p Provider) int {
	impl := p.(*provider)
	impl.scopesMu.Lock()
	defer impl.scopesMu.Unlock()
	return len(impl.scopes)
}

// goroutinesSettleAt waits until at most max goroutines are left. It polls
// inline: assert.Eventually would add goroutines of its own to the count.
func goroutinesSettleAt(t *testing.T, max int) {
	t.Helper()
	deadline := time.Now().Add(2 * time.Second)
	for runtime.NumGoroutine() > max && time.Now().Before(deadline) {
		time.Sleep(2 * time.Millisecond)
	}
	assert.LessOrEqual(t, runtime.NumGoroutine(), max, "goroutines left behind")
}

func TestCreateScopeWithTimeout_ExpiryClosesTheScope(t *testing.T) {
	p := BuildProvider(t,
		AddSingleton(NewTDisposableWithName("singleton"), Name("singleton")),
		AddScoped(NewTDisposable),
		AddScoped(func(ctx context.Context) *TScoped {
			_, hasDeadline := ctx.Deadline()
			return &TScoped{ScopeID: map[bool]string{true: "deadline", false: "none"}[hasDeadline]}
		}),
	)

	ctx := context.WithValue(context.Background(), scopeTimeoutCtxKey{}, "v")
	start := time.Now()
	s, err := CreateScopeWithTimeout(p, ctx, 60*time.Millisecond)
	require.NoError(t, err)

	deadline, ok := s.Context().Deadline()
	require.True(t, ok)
	assert.WithinDuration(t, start.Add(60*time.Millisecond), deadline, 40*time.Millisecond)
	assert.Equal(t, "v", s.Context().Value(scopeTimeoutCtxKey{}))
	fromCtx, err := FromContext(s.Context())
	require.NoError(t, err)
	assert.Same(t, s, fromCtx)
	assert.Same(t, p, s.Provider())

	d := RequireResolveFrom[*TDisposable](t, s)
	assert.Same(t, d, RequireResolveFrom[*TDisposable](t, s))
	assert.Equal(t, "deadline", RequireResolveFrom[*TScoped](t, s).ScopeID, "services see the scope's context")
	child, err := s.CreateScope(nil)
	require.NoError(t, err)
	childInst := RequireResolveFrom[*TDisposable](t, child)
	assert.False(t, d.IsClosed())

	select {
	case <-d.closeChan:
	case <-time.After(2 * time.Second):
		t.Fatal("the scope was not closed by the timeout")
	}
	assert.GreaterOrEqual(t, time.Since(start), 60*time.Millisecond, "not before the timeout")
	assert.True(t, childInst.IsClosed(), "descendants are disposed first")

	_, err = s.Get(TypeOf[*TDisposable]())
	require.ErrorIs(t, err, ErrScopeDisposed)
	_, err = s.CreateScope(context.Background())
	require.ErrorIs(t, err, ErrScopeDisposed)
	_, err = child.Get(TypeOf[*TDisposable]())
	require.ErrorIs(t, err, ErrScopeDisposed)
	assert.ErrorIs(t, s.Context().Err(), context.DeadlineExceeded)

	// Closing again closes nothing twice (TDisposable fails on a second Close)
	assert.Eventually(t, func() bool { return liveScopes(p) == 0 }, time.Second, time.Millisecond)
	require.NoError(t, s.Close())
	assert.False(t, RequireResolveKeyed[*TDisposable](t, p, "singleton").IsClosed())
}

func TestCreateScopeWithTimeout_CloseReleasesTheTimer(t *testing.T) {
	p := BuildProvider(t, AddScoped(NewTDisposable))
	parent := newForeignCtx()
	before := runtime.NumGoroutine()

	s, err := CreateScopeWithTimeout(p, parent, time.Hour)
	require.NoError(t, err)
	d := RequireResolveFrom[*TDisposable](t, s)
	assert.Greater(t, runtime.NumGoroutine(), before)

	require.NoError(t, s.Close())
	assert.True(t, d.IsClosed())
	assert.ErrorIs(t, s.Context().Err(), context.Canceled)
	assert.Equal(t, 0, liveScopes(p))

	// Neither the auto-close goroutine nor the one watching the timeout
	// context's parent is left, an hour before the deadline
	goroutinesSettleAt(t, before)
}

func TestCreateScopeWithTimeout_FailedCreationLeavesNothing(t *testing.T) {
	parent := newForeignCtx()

	_, err := CreateScopeWithTimeout(nil, parent, time.Hour)
	require.ErrorIs(t, err, ErrProviderNil)

	initErr := errors.New("init failed")
	runs := 0
	var created []*TDisposable
	p := BuildProvider(t,
		AddScoped(func() *TDisposable {
			d := NewTDisposable()
			created = append(created, d)
			return d
		}),
		AddScoped(func(*TDisposable) error {
			runs++
			if runs > 1 {
				return initErr
			}
			return nil
		}),
	)
	before := runtime.NumGoroutine()

	var validationErr *ValidationError
	for _, timeout := range []time.Duration{0, -time.Second} {
		_, err = CreateScopeWithTimeout(p, parent, timeout)
		require.ErrorAs(t, err, &validationErr)
	}

	s, err := CreateScopeWithTimeout(p, parent, time.Hour)
	require.ErrorIs(t, err, initErr)
	assert.Nil(t, s)
	require.Len(t, created, 2)
	assert.True(t, created[1].IsClosed())
	assert.Equal(t, 0, liveScopes(p))
	goroutinesSettleAt(t, before)

	// Closed scope and closed provider
	c := NewCollection()
	require.NoError(t, c.AddScoped(NewTScoped))
	p2, err := c.Build()
	require.NoError(t, err)
	closed, err := p2.CreateScope(context.Background())
	require.NoError(t, err)
	require.NoError(t, closed.Close())
	goroutinesSettleAt(t, before)

	for _, ctx := range []context.Context{nil, parent} {
		_, err = CreateScopeWithTimeout(closed, ctx, time.Hour)
		require.ErrorIs(t, err, ErrScopeDisposed)
	}
	require.NoError(t, p2.Close())
	for _, ctx := range []context.Context{nil, parent} {
		_, err = CreateScopeWithTimeout(p2, ctx, time.Hour)
		require.ErrorIs(t, err, ErrProviderDisposed)
	}
	goroutinesSettleAt(t, before)
}

func TestCreateScopeWithTimeout_ChildScopeAndParentContext(t *testing.T) {
	p := BuildProvider(t, AddScoped(NewTDisposable))

	ctx, cancel := context.WithCancel(context.WithValue(context.Background(), scopeTimeoutCtxKey{}, "outer"))
	defer cancel()
	outer, err := p.CreateScope(ctx)
	require.NoError(t, err)
	outerInst := RequireResolveFrom[*TDisposable](t, outer)

	// nil context: the child inherits the parent scope's context
	inner, err := CreateScopeWithTimeout(outer, nil, time.Hour)
	require.NoError(t, err)
	assert.Equal(t, "outer", inner.Context().Value(scopeTimeoutCtxKey{}))
	fromCtx, err := FromContext(inner.Context())
	require.NoError(t, err)
	assert.Same(t, inner, fromCtx, "not the parent scope found through the inherited context")
	innerInst := RequireResolveFrom[*TDisposable](t, inner)
	assert.NotSame(t, outerInst, innerInst)

	outer.(*scope).childrenMu.Lock()
	_, tracked := outer.(*scope).children[inner.(*scope)]
	outer.(*scope).childrenMu.Unlock()
	assert.True(t, tracked)

	// Closing the parent closes the child; the timeout does not matter any more
	require.NoError(t, outer.Close())
	assert.True(t, innerInst.IsClosed())
	assert.True(t, outerInst.IsClosed())
	_, err = inner.Get(TypeOf[*TDisposable]())
	require.ErrorIs(t, err, ErrScopeDisposed)

	// Cancelling the context the scope was created with still closes it
	ctx2, cancel2 := context.WithCancel(context.Background())
	s, err := CreateScopeWithTimeout(p, ctx2, time.Hour)
	require.NoError(t, err)
	inst := RequireResolveFrom[*TDisposable](t, s)
	cancel2()
	select {
	case <-inst.closeChan:
	case <-time.After(2 * time.Second):
		t.Fatal("the scope was not closed by the cancellation")
	}
	assert.ErrorIs(t, s.Context().Err(), context.Canceled)
	assert.Eventually(t, func() bool { return liveScopes(p) == 0 }, time.Second, time.Millisecond)
}

func TestCreateScopeWithTimeout_ConcurrentAndBounded(t *testing.T) {
	p := BuildProvider(t, AddSingleton(NewTService), AddScoped(NewTDisposable))
	parent := newForeignCtx()
	before := runtime.NumGoroutine()

	var mu sync.Mutex
	seen := make(map[*TDisposable]struct{})

	var wg sync.WaitGroup
	for i := 0; i < 8; i++ {
		wg.Add(1)
		go func(i int) {
			defer wg.Done()
			for j := 0; j < 40; j++ {
				// Short timeouts race with the explicit Close
				timeout := time.Hour
				if (i+j)%2 == 0 {
					timeout = time.Duration(j%5+1) * 100 * time.Microsecond
				}

				s, err := CreateScopeWithTimeout(p, parent, timeout)
				if !assert.NoError(t, err) {
					return
				}

				d, err := Resolve[*TDisposable](s)
				if err != nil {
					assert.ErrorIs(t, err, ErrScopeDisposed)
				} else {
					mu.Lock()
					_, dup := seen[d]
					seen[d] = struct{}{}
					mu.Unlock()
					assert.False(t, dup)
				}

				assert.NoError(t, s.Close(), "a failure would mean an instance was closed twice")
			}
		}(i)
	}
	wg.Wait()

	assert.Eventually(t, func() bool { return liveScopes(p) == 0 }, 2*time.Second, time.Millisecond)
	goroutinesSettleAt(t, before)

	mu.Lock()
	defer mu.Unlock()
	for d := range seen {
		assert.Eventually(t, d.IsClosed, time.Second, time.Millisecond)
	}
}
