package godi

import (
	"context"
	"errors"
	"runtime"
	"sync"
	"sync/atomic"
	"testing"
	"time"

	"github.com/stretchr/testify/assert"
	"github.com/stretchr/testify/require"
)

var errF4Close = errors.New("f4: close failed")

// f4Resource fails to close and records what it saw of its owner at that moment.
type f4Resource struct {
	owner       CloseNotifier
	closes      int32
	ownerClosed int32
	fail        bool
}

func (r *f4Resource) Close() error {
	atomic.AddInt32(&r.closes, 1)
	select {
	case <-r.owner.Closed():
		atomic.StoreInt32(&r.ownerClosed, 1)
	default:
	}
	if r.owner.CloseErr() != nil {
		atomic.StoreInt32(&r.ownerClosed, 1)
	}
	if r.fail {
		return errF4Close
	}
	return nil
}

type f4Single struct{ f4Resource }

func newF4Resource(s Scope) *f4Resource { return &f4Resource{owner: s.(CloseNotifier), fail: true} }
func newF4Single(p Provider) *f4Single {
	return &f4Single{f4Resource{owner: p.(CloseNotifier), fail: true}}
}

func f4IsClosed(n CloseNotifier) bool {
	select {
	case <-n.Closed():
		return true
	default:
		return false
	}
}

func f4Wait(t *testing.T, n CloseNotifier) {
	t.Helper()
	select {
	case <-n.Closed():
	case <-time.After(5 * time.Second):
		t.Fatal("Closed was never signalled")
	}
}

func TestF4_AutoCloseOnCancelReportsItsError(t *testing.T) {
	t.Parallel()

	p := BuildProvider(t, AddScoped(newF4Resource))

	ctx, cancel := context.WithCancel(context.Background())
	scope, err := p.CreateScope(ctx)
	require.NoError(t, err)
	n := scope.(CloseNotifier)

	res, err := Resolve[*f4Resource](scope)
	require.NoError(t, err)

	assert.False(t, f4IsClosed(n))
	assert.NoError(t, n.CloseErr(), "open scope")

	cancel() // the auto-close goroutine swallows the error ...
	f4Wait(t, n)

	// ... but it is still observable
	var disposal *DisposalError
	require.True(t, errors.As(n.CloseErr(), &disposal))
	assert.Equal(t, "scope", disposal.Context)
	require.Len(t, disposal.Errors, 1)
	assert.True(t, errors.Is(disposal.Errors[0], errF4Close))

	assert.EqualValues(t, 1, atomic.LoadInt32(&res.closes))
	assert.Zero(t, atomic.LoadInt32(&res.ownerClosed), "completion is signalled after the instances are closed, not before")

	// A later Close returns nil, closes nothing again and does not reset the outcome
	assert.NoError(t, scope.Close())
	assert.EqualValues(t, 1, atomic.LoadInt32(&res.closes))
	assert.Same(t, disposal, n.CloseErr())

	_, err = Resolve[*f4Resource](scope)
	assert.ErrorIs(t, err, ErrScopeDisposed)
}

func TestF4_NestedScopesAndCleanClose(t *testing.T) {
	t.Parallel()

	p := BuildProvider(t, AddScoped(newF4Resource), AddTransient(NewTDisposable))

	parent, err := p.CreateScope(context.Background())
	require.NoError(t, err)
	child, err := parent.CreateScope(context.Background())
	require.NoError(t, err)
	sibling, err := p.CreateScope(context.Background())
	require.NoError(t, err)

	// Only the child owns a failing instance; the sibling closes cleanly
	_, err = Resolve[*f4Resource](child)
	require.NoError(t, err)
	ok, err := Resolve[*TDisposable](sibling)
	require.NoError(t, err)

	err = parent.Close()
	require.Error(t, err)

	pn, cn, sn := parent.(CloseNotifier), child.(CloseNotifier), sibling.(CloseNotifier)
	assert.True(t, f4IsClosed(pn))
	assert.True(t, f4IsClosed(cn), "descendants are completely disposed before the parent's Close returns")
	assert.False(t, f4IsClosed(sn))

	assert.Equal(t, err, pn.CloseErr())
	var childErr *DisposalError
	require.True(t, errors.As(cn.CloseErr(), &childErr))
	assert.True(t, errors.Is(childErr.Errors[0], errF4Close))

	// The parent's error wraps the very error the child recorded
	var parentErr, wrapped *DisposalError
	require.True(t, errors.As(err, &parentErr))
	require.Len(t, parentErr.Errors, 1)
	require.True(t, errors.As(parentErr.Errors[0], &wrapped))
	assert.Same(t, childErr, wrapped)

	require.NoError(t, sibling.Close())
	assert.True(t, f4IsClosed(sn))
	assert.NoError(t, sn.CloseErr(), "clean close: signalled, no error")
	assert.True(t, ok.IsClosed())
}

func TestF4_ConcurrentCloseHasOneOutcome(t *testing.T) {
	t.Parallel()

	p := BuildProvider(t, AddScoped(newF4Resource))

	for round := 0; round < 50; round++ {
		ctx, cancel := context.WithCancel(context.Background())
		scope, err := p.CreateScope(ctx)
		require.NoError(t, err)
		res, err := Resolve[*f4Resource](scope)
		require.NoError(t, err)
		n := scope.(CloseNotifier)

		var wg sync.WaitGroup
		var failures int32
		for i := 0; i < 8; i++ {
			wg.Add(1)
			go func(i int) {
				defer wg.Done()
				if i == 3 {
					cancel()
					return
				}
				if err := scope.Close(); err != nil {
					atomic.AddInt32(&failures, 1)
				}
				// A caller that lost the race may get here before the winner is
				// done: CloseErr is then nil or - once signalled - the outcome
				if err := n.CloseErr(); err != nil {
					assert.True(t, f4IsClosed(n))
					assert.ErrorIs(t, err.(*DisposalError).Errors[0], errF4Close)
				}
			}(i)
		}
		wg.Wait()
		f4Wait(t, n)
		cancel()

		assert.LessOrEqual(t, atomic.LoadInt32(&failures), int32(1), "at most one Close call reports the failure")
		assert.Error(t, n.CloseErr(), "whoever did the work, the outcome is there")
		assert.EqualValues(t, 1, atomic.LoadInt32(&res.closes))
	}
}

func TestF4_Provider(t *testing.T) {
	t.Parallel()

	c := NewCollection()
	require.NoError(t, c.AddSingleton(newF4Single))
	require.NoError(t, c.AddScoped(newF4Resource))

	p, err := c.Build()
	require.NoError(t, err)
	pn := p.(CloseNotifier)

	single, err := Resolve[*f4Single](p)
	require.NoError(t, err)
	scope, err := p.CreateScope(context.Background())
	require.NoError(t, err)
	res, err := Resolve[*f4Resource](scope)
	require.NoError(t, err)

	assert.False(t, f4IsClosed(pn))
	assert.NoError(t, pn.CloseErr())

	err = p.Close()
	require.Error(t, err)
	assert.True(t, f4IsClosed(pn))
	assert.Equal(t, err, pn.CloseErr())
	assert.True(t, f4IsClosed(scope.(CloseNotifier)), "every scope completes before the provider does")
	assert.Error(t, scope.(CloseNotifier).CloseErr())

	var disposal *DisposalError
	require.True(t, errors.As(err, &disposal))
	assert.Equal(t, "provider", disposal.Context)
	assert.Len(t, disposal.Errors, 2, "the scope's failure and the singleton's")

	assert.EqualValues(t, 1, atomic.LoadInt32(&single.closes))
	assert.EqualValues(t, 1, atomic.LoadInt32(&res.closes))
	assert.Zero(t, atomic.LoadInt32(&single.ownerClosed))

	assert.NoError(t, p.Close(), "second Close")
	assert.Equal(t, err, pn.CloseErr())
	_, err = p.CreateScope(context.Background())
	assert.ErrorIs(t, err, ErrProviderDisposed)

	// A second provider built from the same collection has its own state
	p2, err := c.Build()
	require.NoError(t, err)
	assert.False(t, f4IsClosed(p2.(CloseNotifier)))
	assert.NoError(t, p2.(CloseNotifier).CloseErr())
	assert.Error(t, p2.Close())

	// A Build that fails closes the half-built provider without panicking
	require.NoError(t, c.AddSingleton(func(*f4Single) (*TService, error) { return nil, errF4Close }))
	_, err = c.Build()
	require.Error(t, err)
}

// Create-use-close cycles leave no goroutine behind: the notification needs none.
func TestF4_NoGoroutinePerScope(t *testing.T) {
	p := BuildProvider(t, AddScoped(NewTDisposable))

	before := runtime.NumGoroutine()
	for i := 0; i < 200; i++ {
		scope, err := p.CreateScope(context.Background())
		require.NoError(t, err)
		_, err = Resolve[*TDisposable](scope)
		require.NoError(t, err)
		require.NoError(t, scope.Close())
		f4Wait(t, scope.(CloseNotifier))
	}

	assert.Eventually(t, func() bool { return runtime.NumGoroutine() <= before+2 }, 5*time.Second, 10*time.Millisecond)
}
