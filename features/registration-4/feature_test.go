package godi

import (
	"errors"
	"reflect"
	"sync"
	"sync/atomic"
	"testing"

	"github.com/stretchr/testify/assert"
	"github.com/stretchr/testify/require"
)

type (
	tgStore   struct{ n int32 }
	tgHandler struct{ name string }
	tgMailer  struct{}
	tgReader  interface{ TgRead() }
	tgWriter  interface{ TgWrite() }
)

func (*tgStore) TgRead()  {}
func (*tgStore) TgWrite() {}

type tgOut struct {
	Out
	Mailer  *tgMailer  `name:"bulk"`
	Handler *tgHandler `name:"admin"`
}

type tgRouterIn struct {
	In
	Handlers []*tgHandler `group:"routes"`
	Admin    *tgHandler   `name:"admin" optional:"true"`
}

type tgRouter struct{ in tgRouterIn }

func tgTypes(descriptors []*Descriptor) []reflect.Type {
	types := make([]reflect.Type, 0, len(descriptors))
	for _, d := range descriptors {
		types = append(types, d.Type)
	}
	return types
}

func TestRegistrationTags(t *testing.T) {
	storeType := reflect.TypeOf((*tgStore)(nil))
	handlerType := reflect.TypeOf((*tgHandler)(nil))
	mailerType := reflect.TypeOf((*tgMailer)(nil))
	readerType := reflect.TypeOf((*tgReader)(nil)).Elem()
	writerType := reflect.TypeOf((*tgWriter)(nil)).Elem()

	t.Run("option", func(t *testing.T) {
		assert.Equal(t, `Tag("layer", "http")`, Tag("layer", "http").(addTagOption).String())

		opts := &addOptions{}
		Tag("a", "1").applyAddOption(opts)
		Tag("b", "2").applyAddOption(opts)
		Tag("a", "3").applyAddOption(opts)
		assert.Equal(t, map[string]string{"a": "3", "b": "2"}, opts.Tags)
		require.NoError(t, opts.Validate())

		// Tags combine with the other options
		both := &addOptions{}
		Name("n").applyAddOption(both)
		Tag("a", "1").applyAddOption(both)
		require.NoError(t, both.Validate())
		assert.Equal(t, "n", both.Name)
	})

	t.Run("query_in_registration_order", func(t *testing.T) {
		c := NewCollection()
		require.NoError(t, c.AddSingleton(func() *tgStore { return &tgStore{} }, Tag("layer", "storage"), Tag("owner", "a")))
		require.NoError(t, c.AddTransient(func() *tgHandler { return &tgHandler{name: "h1"} }, Group("routes"), Tag("layer", "http")))
		require.NoError(t, c.AddScoped(func() *tgMailer { return &tgMailer{} }))
		require.NoError(t, c.AddTransient(func() *tgHandler { return &tgHandler{name: "h2"} }, Tag("layer", "http"), Group("routes")))
		require.NoError(t, c.AddSingleton(func() *tgHandler { return &tgHandler{name: "admin"} }, Name("admin"), Tag("layer", "http"), Tag("owner", "a")))

		http := c.FindByTag("layer", "http")
		require.Len(t, http, 3)
		all := c.ToSlice()
		assert.Same(t, all[1], http[0])
		assert.Same(t, all[3], http[1])
		assert.Same(t, all[4], http[2])

		assert.Equal(t, []reflect.Type{storeType, handlerType}, tgTypes(c.FindByTag("owner", "a")))
		assert.Empty(t, c.FindByTag("layer", "HTTP"), "values are matched exactly")
		assert.Empty(t, c.FindByTag("missing", ""))
		assert.Empty(t, c.FindByTag("", ""))
		assert.NotNil(t, c.FindByTag("missing", "x"))

		// Untagged registrations have no tags at all
		assert.Nil(t, all[2].Tags)
		assert.False(t, all[2].HasTag("layer", ""))
		assert.True(t, all[0].HasTag("layer", "storage"))
		assert.False(t, all[0].HasTag("layer", "http"))

		// Identity and grouping are those of an untagged registration
		assert.True(t, c.Contains(storeType))
		assert.True(t, c.ContainsKeyed(handlerType, "admin"))
		assert.False(t, c.Contains(handlerType))
		assert.Equal(t, 1, all[1].Key)
		assert.Equal(t, 2, all[3].Key)

		// Removal drops the registration from the query, too
		c.RemoveKeyed(handlerType, "admin")
		assert.Len(t, c.FindByTag("layer", "http"), 2)
		assert.Equal(t, []reflect.Type{storeType}, tgTypes(c.FindByTag("owner", "a")))
	})

	t.Run("every_produced_service_carries_its_own_copy", func(t *testing.T) {
		c := NewCollection()
		require.NoError(t, c.AddSingleton(func() *tgStore { return &tgStore{} }, As[tgReader](), As[tgWriter](), Tag("kind", "io")))
		require.NoError(t, c.AddSingleton(func() (*tgStore, *tgMailer) { return &tgStore{}, &tgMailer{} }, Tag("kind", "pair")))
		require.NoError(t, c.AddSingleton(func() tgOut { return tgOut{Mailer: &tgMailer{}, Handler: &tgHandler{}} }, Tag("kind", "out")))

		assert.Equal(t, []reflect.Type{readerType, writerType}, tgTypes(c.FindByTag("kind", "io")))
		assert.Equal(t, []reflect.Type{storeType, mailerType}, tgTypes(c.FindByTag("kind", "pair")))

		out := c.FindByTag("kind", "out")
		assert.Equal(t, []reflect.Type{mailerType, handlerType}, tgTypes(out))
		assert.Equal(t, "bulk", out[0].Key)
		assert.Equal(t, "admin", out[1].Key)

		// Changing the tags of one descriptor does not leak into its siblings
		io := c.FindByTag("kind", "io")
		io[0].Tags["kind"] = "changed"
		io[0].Tags["extra"] = "x"
		assert.Equal(t, map[string]string{"kind": "io"}, io[1].Tags)
		assert.Equal(t, []reflect.Type{writerType}, tgTypes(c.FindByTag("kind", "io")))
		assert.Equal(t, []reflect.Type{readerType}, tgTypes(c.FindByTag("kind", "changed")))
	})

	t.Run("rejected_registrations_leave_nothing", func(t *testing.T) {
		c := NewCollection()
		require.NoError(t, c.AddSingleton(func() *tgStore { return &tgStore{} }, Tag("v", "1")))

		// Tags are no part of the identity
		err := c.AddSingleton(func() *tgStore { return &tgStore{} }, Tag("v", "2"))
		var already *AlreadyRegisteredError
		require.ErrorAs(t, err, &already)
		assert.Empty(t, c.FindByTag("v", "2"))
		assert.Len(t, c.FindByTag("v", "1"), 1)

		// An alias collision rejects the whole registration
		require.NoError(t, c.AddSingleton(func() *tgStore { return &tgStore{} }, As[tgWriter]()))
		err = c.AddSingleton(func() *tgStore { return &tgStore{} }, As[tgReader](), As[tgWriter](), Tag("v", "3"))
		require.ErrorAs(t, err, &already)
		assert.Empty(t, c.FindByTag("v", "3"))
		assert.False(t, c.Contains(readerType))

		// Empty keys are refused
		err = c.AddScoped(func() *tgMailer { return &tgMailer{} }, Tag("", "x"))
		require.Error(t, err)
		var validation *ValidationError
		require.ErrorAs(t, err, &validation)
		assert.Contains(t, err.Error(), "tag keys cannot be empty")
		assert.False(t, c.Contains(mailerType))
		assert.Equal(t, 2, c.Count())

		// Through modules the error is wrapped, the cause stays reachable
		err = c.AddModules(NewModule("m", AddSingleton(func() *tgStore { return &tgStore{} }, Tag("v", "4"))))
		var moduleErr ModuleError
		require.True(t, errors.As(err, &moduleErr))
		require.ErrorAs(t, err, &already)
	})

	t.Run("tags_do_not_influence_build_or_resolution", func(t *testing.T) {
		var stores atomic.Int32

		register := func(tagged bool) Collection {
			tag := func(k, v string) []AddOption {
				if tagged {
					return []AddOption{Tag(k, v)}
				}
				return nil
			}

			c := NewCollection()
			require.NoError(t, c.AddSingleton(func() *tgStore { return &tgStore{n: stores.Add(1)} }, tag("layer", "storage")...))
			require.NoError(t, c.AddTransient(func() *tgHandler { return &tgHandler{name: "h1"} }, append(tag("layer", "http"), Group("routes"))...))
			require.NoError(t, c.AddTransient(func(*tgStore) *tgHandler { return &tgHandler{name: "h2"} }, append(tag("layer", "http"), Group("routes"))...))
			require.NoError(t, c.AddSingleton(func() *tgHandler { return &tgHandler{name: "admin"} }, append(tag("role", "admin"), Name("admin"))...))
			require.NoError(t, c.AddScoped(func(in tgRouterIn) *tgRouter { return &tgRouter{in: in} }, tag("layer", "http")...))
			return c
		}

		for _, tagged := range []bool{false, true} {
			stores.Store(0)
			c := register(tagged)

			p, err := c.Build()
			require.NoError(t, err)
			assert.EqualValues(t, 1, stores.Load())

			s, err := p.CreateScope(nil)
			require.NoError(t, err)
			router, err := Resolve[*tgRouter](s)
			require.NoError(t, err)
			again, err := Resolve[*tgRouter](s)
			require.NoError(t, err)
			assert.Same(t, router, again)

			require.Len(t, router.in.Handlers, 2)
			assert.Equal(t, "h1", router.in.Handlers[0].name)
			assert.Equal(t, "h2", router.in.Handlers[1].name)
			require.NotNil(t, router.in.Admin)
			assert.Equal(t, "admin", router.in.Admin.name)

			other, err := p.CreateScope(nil)
			require.NoError(t, err)
			otherRouter, err := Resolve[*tgRouter](other)
			require.NoError(t, err)
			assert.NotSame(t, router, otherRouter)
			assert.Same(t, router.in.Admin, otherRouter.in.Admin)
			assert.NotSame(t, router.in.Handlers[0], otherRouter.in.Handlers[0])

			require.NoError(t, p.Close())
			_, err = Resolve[*tgRouter](s)
			require.ErrorIs(t, err, ErrScopeDisposed)
			assert.EqualValues(t, 1, stores.Load())

			// Editing tags after the build changes queries only
			if tagged {
				c.FindByTag("layer", "storage")[0].Tags["layer"] = "moved"
				assert.Empty(t, c.FindByTag("layer", "storage"))
				p2, err := c.Build()
				require.NoError(t, err)
				_, err = Resolve[*tgStore](p2)
				require.NoError(t, err)
				require.NoError(t, p2.Close())
			}
		}
	})

	t.Run("concurrent_queries_and_build", func(t *testing.T) {
		c := NewCollection()
		require.NoError(t, c.AddSingleton(func() *tgStore { return &tgStore{} }, Tag("layer", "storage")))
		require.NoError(t, c.AddScoped(func(*tgStore) *tgMailer { return &tgMailer{} }, Tag("layer", "mail")))

		var wg sync.WaitGroup
		for i := 0; i < 8; i++ {
			wg.Add(1)
			go func(i int) {
				defer wg.Done()
				for j := 0; j < 20; j++ {
					assert.Len(t, c.FindByTag("layer", "storage"), 1)
					assert.Len(t, c.FindByTag("layer", "mail"), 1)
				}
				if i%4 == 0 {
					p, err := c.Build()
					if assert.NoError(t, err) {
						assert.NoError(t, p.Close())
					}
				}
			}(i)
		}
		wg.Wait()
	})
}
