#!/usr/bin/env python3
"""usage: storeseeds.py <src dir with Cxx/mN/{patch.diff,demo_test.go,notes.md}> <verify.txt> <detect.txt> <suffix>
Stores confirmed seeded changes under /verif/seeded/<Cxx>-<suffix>mN with a meta.json."""
import json, os, re, shutil, sys
src, verify, detect, suffix = sys.argv[1:5]
ver = {}
for l in open(verify):
    m = re.match(r'(C\d+)/(m\d+): suite_with_patch=(\S+) demo_fails_with_patch=(\S+) demo_fails_without_patch=(\S+) dir=(\S+)', l)
    if m: ver[(m[1], m[2])] = m.groups()[2:]
det = {}
for l in open(detect):
    m = re.match(r'(C\d+)/(m\d+)/patch.diff: (C\d+)=(\d+)\[([^\]]*)\]', l)
    if m: det[(m[1], m[2])] = (m[3], int(m[4]), [x for x in m[5].split(',') if x])
for (c, mm), (suite, wf, of, d) in sorted(ver.items()):
    if suite != 'ok' or wf.split('/')[0] == '0' or of.split('/')[0] != '0':
        print('not confirmed:', c, mm); continue
    sd = os.path.join(src, c, mm)
    dst = f'/verif/seeded/{c}-{suffix}{mm}'
    os.makedirs(dst, exist_ok=True)
    for f in ('patch.diff', 'demo_test.go', 'notes.md'):
        shutil.copy(os.path.join(sd, f), dst)
    notes = open(os.path.join(sd, 'notes.md')).read()
    m = re.search(r'(?is)(#+ *what is needed[^\n]*\n.*?)(\n#+ |\Z)', notes)
    needs = ' '.join((m[1] if m else notes[:600]).split())[:900]
    demo = open(os.path.join(sd, 'demo_test.go')).read()
    tests = re.findall(r'(?m)^func (Test\w+)', demo)
    prop, ex, rules = det.get((c, mm), (c, None, []))
    meta = {
        'id': f'{c}-{suffix}{mm}', 'property': c,
        'origin': f'round {suffix.lstrip("r")}: written by an independent sub-agent that saw only the property text and its own scratch worktree of /repo (commit 5fe29a6); nothing from /verif',
        'needs_to_manifest': needs,
        'demo': {'file': 'demo_test.go', 'package_dir': d, 'tests': tests},
        'confirmed_by_me': {
            'command': 'tools/verify_seed.sh (scratch copies of /repo at HEAD; patch -p1; for m in . chi echo fiber gin http: go build ./... && go test -vet=off -count=1 ./...; go test -run <demo tests>)',
            'suite_with_patch': suite, 'demo_fails_with_patch': wf, 'demo_fails_without_patch': of},
        'detected_by': {'check': f'./check.sh {prop} quick (on a scratch copy with the patch applied)', 'exit': ex, 'rules': rules,
                        **({'note': 'NOT detected: value-level (algorithmic) change, see DESIGN.md'} if ex == 0 else {})},
    }
    json.dump(meta, open(os.path.join(dst, 'meta.json'), 'w'), indent=1)
    print('stored', dst, ex, rules)
