#!/bin/bash
# thorough tier for one property:
#   1. the quick rule set, re-decided under every build configuration (inside godicheck -tier thorough);
#   2. sensitivity evidence: the checker is run on a scratch copy of the repository for every corpus
#      entry of this property (mutants/*.diff, seeded/<id>/patch.diff); detection results are merged
#      into the evidence file. Sensitivity never changes the exit status.
#   3. cross-reference: go vet (copylocks, lostcancel, atomic) on the root module, recorded only.
set -uo pipefail
here="$(cd "$(dirname "$0")/.." && pwd)"
prop="$1"; root="${2:-/repo}"
# a build cache of this run's own for the scratch copies (see sweep.sh): several properties may be run
# side by side, and none may remove a cache another one is using
export GODICHECK_SWEEP_CACHE=$(mktemp -d /tmp/godicheck-sweep-cache.XXXXXX)
trap 'rm -rf "$GODICHECK_SWEEP_CACHE"' EXIT
"$here/bin/godicheck" -property "$prop" -tier thorough -root "$root" -verif "$here"
st=$?
ev="$here/evidence/$prop.json"
[ -f "$ev" ] || exit $st
corpus=()
for f in "$here"/mutants/*.diff; do
  head -1 "$f" | grep -q "property=$prop " && corpus+=("$f")
done
for d in "$here"/seeded/"$prop"-*; do [ -f "$d/patch.diff" ] && corpus+=("$d/patch.diff"); done
sens="[]"
if [ ${#corpus[@]} -gt 0 ] && [ "$root" = /repo ]; then
  out=$(GODICHECK="$here/bin/godicheck" "$here/tools/sweep.sh" "$prop" "${corpus[@]}" 2>/dev/null)
  sens=$(echo "$out" | python3 -c '
import sys, re, json
res=[]
for l in sys.stdin:
    m=re.match(r"(\S+): (PATCH-FAILED|(C\d+)=(\d)\[(.*?)\])", l.strip())
    if not m: continue
    if m.group(2)=="PATCH-FAILED": res.append({"entry":m.group(1),"status":"skipped: does not apply to the current tree"}); continue
    res.append({"entry":m.group(1),"exit":int(m.group(4)),"rules":[x for x in m.group(5).split(",") if x],"detected":m.group(4)=="1"})
print(json.dumps(res))')
fi
# false-alarm corpus: behaviour-preserving refactorings (refactors/) - the check must stay silent
fa="[]"
if [ "$root" = /repo ] && ls "$here"/refactors/*/patch.diff >/dev/null 2>&1; then
  out=$(GODICHECK="$here/bin/godicheck" "$here/tools/sweep.sh" "$prop" "$here"/refactors/*/patch.diff "$here"/features/*/patch.diff 2>/dev/null)
  fa=$(echo "$out" | python3 -c '
import sys, re, json
res=[]
for l in sys.stdin:
    m=re.match(r"(\S+): (PATCH-FAILED|(C\d+)=(\d)\[(.*?)\])", l.strip())
    if not m: continue
    name=m.group(1).replace("/patch.diff","").split("/verif/")[-1]
    if m.group(2)=="PATCH-FAILED": res.append({"entry":name,"status":"skipped: does not apply to the current tree"}); continue
    res.append({"entry":name,"exit":int(m.group(4)),"rules":[x for x in m.group(5).split(",") if x],"silent":m.group(4)=="0"})
print(json.dumps(res))')
fi
vet=$(cd "$root" && GOFLAGS=-mod=mod GOPROXY=off GOWORK=off go vet -copylocks -lostcancel -atomic ./... 2>&1 | grep -c . || true)
python3 - "$ev" "$sens" "$vet" "$fa" <<'PY'
import json, sys
ev, sens, vet = sys.argv[1], json.loads(sys.argv[2]), sys.argv[3]
fa = json.loads(sys.argv[4])
e = json.load(open(ev))
c = e["coverage"]
c["sensitivity_corpus"] = {"entries": len(sens), "detected": sum(1 for s in sens if s.get("detected")),
    "note": "each entry is a change to the repository that compiles and passes the unedited test suite; the checker was run on a scratch copy with the entry applied; evidence only, never part of the verdict",
    "results": sens}
c["false_alarm_corpus"] = {"entries": len(fa), "silent": sum(1 for s in fa if s.get("silent")),
    "note": "behaviour-preserving refactorings (refactors/) and correct feature additions (features/) written by independent sub-agents (suite and -race green); the checker was run on a scratch copy with each applied; an entry of refactors/ that is not silent is a checker defect; the entries of features/ that are reported are listed with the reason in features/README.md; evidence only, never part of the verdict",
    "not_silent": [s for s in fa if not s.get("silent")]}
c["cross_reference"] = {"go_vet_copylocks_lostcancel_atomic_lines": int(vet), "note": "generic analyzers, recorded only; they decide nothing"}
json.dump(e, open(ev, "w"), indent=1); open(ev, "a").write("\n")
PY
n=$(echo "$sens" | python3 -c 'import json,sys; s=json.load(sys.stdin); print(str(sum(1 for x in s if x.get("detected")))+"/"+str(len(s)))')
echo "sensitivity corpus for $prop: detected $n"
echo "false-alarm corpus for $prop: $(echo "$fa" | python3 -c 'import json,sys; s=json.load(sys.stdin); print(str(sum(1 for x in s if x.get("silent")))+"/"+str(len(s))+" silent")')"
exit $st
