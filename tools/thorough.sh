#!/bin/bash
# thorough tier: quick rules + build-configuration sweep (+ mutant corpus as sensitivity evidence)
set -uo pipefail
here="$(cd "$(dirname "$0")/.." && pwd)"
prop="$1"; root="${2:-/repo}"
exec "$here/bin/godicheck" -property "$prop" -tier thorough -root "$root" -verif "$here"
