#!/bin/bash
# usage: verify_seed.sh <seed dir containing patch.diff and demo_test.go>
# Confirms in scratch copies of /repo: (1) with the patch all six modules build and the unedited suite passes,
# (2) the demonstration fails with the patch, (3) the demonstration passes without it.
set -u
sd=$(realpath "$1")
export GOFLAGS=-mod=mod GOPROXY=off GOWORK=off
demo=$(ls "$sd"/*_test.go 2>/dev/null | head -1)
[ -z "$demo" ] && { echo "$sd: NO-DEMO"; exit 2; }
pkg=$(grep -m1 '^package ' "$demo" | awk '{print $2}')
case "$pkg" in
  godi|godi_test) dir=. ;;
  graph|graph_test) dir=internal/graph ;;
  reflection|reflection_test) dir=internal/reflection ;;
  http|http_test|godihttp_test) dir=http ;;
  chi|chi_test) dir=chi ;; gin|gin_test) dir=gin ;; echo|echo_test) dir=echo ;; fiber|fiber_test) dir=fiber ;;
  *) echo "$sd: UNKNOWN-PACKAGE $pkg"; exit 2 ;;
esac
tests=$(grep -o '^func Test[A-Za-z0-9_]*' "$demo" | sed 's/func //' | paste -sd'|')
d=$(mktemp -d /tmp/vseed.XXXXXX); trap 'rm -rf "$d"' EXIT
rsync -a --exclude .git /repo/ "$d/with/"; rsync -a --exclude .git /repo/ "$d/without/"
(cd "$d/with" && patch -p1 -s --no-backup-if-mismatch < "$sd/patch.diff") || { echo "$sd: PATCH-FAILED"; exit 2; }
suite=ok
for m in . chi echo fiber gin http; do
  (cd "$d/with/$m" && go build ./... >/dev/null 2>&1 && go test -vet=off -count=1 ./... >"$d/suite.$$.log" 2>&1) || { suite="FAIL($m)"; break; }
done
cp "$demo" "$d/with/$dir/zz_demo_test.go"; cp "$demo" "$d/without/$dir/zz_demo_test.go"
moddir=$dir; case "$dir" in internal/*) moddir=.;; esac
runs=${DEMO_RUNS:-1}
wfail=0; for i in $(seq $runs); do (cd "$d/with/$dir" && timeout 300 go test -vet=off -count=1 -run "^($tests)\$" . >"$d/with.log" 2>&1) || wfail=$((wfail+1)); done
ofail=0; for i in $(seq $runs); do (cd "$d/without/$dir" && timeout 300 go test -vet=off -count=1 -run "^($tests)\$" . >"$d/without.log" 2>&1) || ofail=$((ofail+1)); done
echo "$sd: suite_with_patch=$suite demo_fails_with_patch=$wfail/$runs demo_fails_without_patch=$ofail/$runs dir=$dir tests=$tests"
[ "$ofail" != 0 ] && tail -15 "$d/without.log"
exit 0
