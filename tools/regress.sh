#!/bin/bash
# Full regression of the checker (about 50 min on 16 cores):
#   1. every check on the unchanged tree: exit 0, only the listed KNOWN-FINDING lines;
#   2. false-alarm corpus: every check on every refactoring of refactors/ (and repairs/): silent;
#   3. sensitivity corpus: the check of its own property on every entry of seeded/ and mutants/.
# Writes a summary to stdout; details under /tmp/regress.*.out
export GODICHECK_SWEEP_CACHE=$(mktemp -d /tmp/godicheck-sweep-cache.XXXXXX); trap 'rm -rf "$GODICHECK_SWEEP_CACHE"' EXIT
cd "$(dirname "$0")/.."
fail=0
for p in C01 C02 C03 C04 C05 C06 C07 C08 C09 C10 C11 C12 C13 C14 C15 C16 C17 C18 C19 C20; do
  ./check.sh $p > /tmp/regress.$p.out 2>&1; st=$?
  [ $st -ne 0 ] && { echo "unchanged tree: $p exit=$st"; fail=1; }
  grep -q '^VIOLATION' /tmp/regress.$p.out && { echo "unchanged tree: $p prints VIOLATION"; fail=1; }
done
echo "unchanged tree: done (fail=$fail), KNOWN-FINDING lines: $(cat /tmp/regress.C*.out | grep -c '^KNOWN-FINDING')"
tools/refsweep.sh refactors/*/patch.diff > /tmp/regress.refactors.out 2>&1
tail -1 /tmp/regress.refactors.out
tools/refsweep.sh repairs/*/patch.diff > /tmp/regress.repairs.out 2>&1
echo "repairs: $(grep -c ALL-OK /tmp/regress.repairs.out) silent of $(ls -d repairs/*/ | wc -l) (D2-* are documented as not silent)"
tools/sweep.sh auto seeded/*/patch.diff mutants/*.diff > /tmp/regress.detect.out 2>&1
echo "sensitivity: $(grep -c '=1\[' /tmp/regress.detect.out) detected of $(grep -c patch.diff /tmp/regress.detect.out | cat) + $(ls mutants/*.diff | wc -l) mutants; not detected:"
grep -v '=1\[' /tmp/regress.detect.out
