#!/bin/bash
# usage: rebase_patch.sh <old-base-commit> <patch files...>
# Re-bases corpus patches that no longer apply to /repo's HEAD: applies each to a scratch worktree at the old
# base, commits there (detached), cherry-picks onto HEAD in a second scratch worktree (3-way merge) and rewrites
# the patch file as the diff against HEAD. Conflicts are reported and the patch is left unchanged.
set -u
old=$1; shift
A=$(mktemp -d /tmp/rb_a.XXXX); B=$(mktemp -d /tmp/rb_b.XXXX); rmdir "$A" "$B"
git -C /repo worktree add -q --detach "$A" "$old"
git -C /repo worktree add -q --detach "$B" HEAD
head=$(git -C /repo rev-parse HEAD)
for p in "$@"; do
  p=$(realpath "$p")
  git -C "$A" checkout -q --detach "$old"; git -C "$A" reset -q --hard; git -C "$A" clean -qfd
  hdr=$(grep -m1 '^# ' "$p" | grep 'property=' || true)
  if ! git -C "$A" apply --whitespace=nowarn "$p" 2>/dev/null && ! (cd "$A" && patch -p1 -s --no-backup-if-mismatch < "$p" >/dev/null 2>&1); then echo "$p: does not apply to $old"; continue; fi
  git -C "$A" add -A; git -C "$A" -c user.name=x -c user.email=x@x commit -q -m tmp
  c=$(git -C "$A" rev-parse HEAD)
  git -C "$B" checkout -q --detach "$head"; git -C "$B" reset -q --hard; git -C "$B" clean -qfd
  if git -C "$B" -c user.name=x -c user.email=x@x cherry-pick "$c" >/dev/null 2>&1; then
    { [ -n "$hdr" ] && echo "$hdr"; git -C "$B" diff "$head" HEAD; } > "$p"
    echo "$p: rebased"
  else
    git -C "$B" cherry-pick --abort 2>/dev/null
    echo "$p: CONFLICT"
  fi
done
git -C /repo worktree remove --force "$A"; git -C /repo worktree remove --force "$B"; git -C /repo worktree prune
