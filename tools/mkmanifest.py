#!/usr/bin/env python3
"""Generates /verif/MANIFEST.json from the table below (kept next to the checker so
that the claimed set always matches the rules that actually run)."""
import json, os, subprocess, sys

HERE = os.path.dirname(os.path.dirname(os.path.abspath(__file__)))

NOTE = ("Trusted base: go/types, golang.org/x/tools v0.29.0 (go/packages, go/cfg, go/ssa), the idiom and "
        "guarded-by tables frozen in /verif/checker. Assumes user constructors, reflect and the standard library "
        "behave as documented. The rules are necessary conditions: a discharged rule set does not prove the behaviour.")

# property -> (technique, text, design_ref)
CLAIMED = {
    "C09": ("static analysis: must-hold lockset dataflow over go/cfg with interprocedural entry locksets, "
            "guarded-by table, lock-order graph, typestate of Close-reset tables",
            "Every access to every shared field on every path is checked against its synchronisation discipline; "
            "lock hygiene (order, no user code under a lock, release on all exits) and the nil-after-Close typestate "
            "are decided structurally. This covers all interleavings' necessary conditions, which no finite set of "
            "race-detector runs can; it does not decide races in user code or value-level outcomes.",
            "DESIGN.md §4 C09"),
    "C10": ("static analysis: must-event dataflow over the Close methods' CFGs (gate, drain, cascade), lifetime-switch case regions, who-may-call, path-sensitive ownership of cancel, typestate",
            "Decides for every path - not the ones a test drives - that each tracked instance is routed to exactly one owner list, that both Close methods drain a snapshot completely behind a compare-and-swap gate, that failure paths of Build and scope creation dispose what they created, and that nothing else calls Close on container-held instances. Counts of Close calls over histories are not decided.",
            "DESIGN.md §4 C10"),
    "C11": ("static analysis: loop-shape recognition (reverse complete traversal), append-only list discipline, dominance of the child/scope cascade over the owner's disposal loop",
            "Reverse-of-creation order rests on three structural facts that are decided on all paths: one creation-ordered list per owner that is only appended to, disposal loops that run from the last element to the first, and the cascade (children; scopes then root scope) completing before the owner's own loop. The resulting order over all DAGs is not decided.",
            "DESIGN.md §4 C11"),
    "C12": ("static analysis: CAS-gate dominance, error-accumulation dataflow in the Close methods, result-shape check on branch edges",
            "Completeness under errors and idempotence are decided as path properties of the two Close methods: the gate dominates every effect, no Close() error causes an exit or is dropped, every phase is on every path past the gate, and the DisposalError is returned exactly on the non-empty edge.",
            "DESIGN.md §4 C12"),
    "C13": ("static analysis: entry-check dominance (R-ENTRY) for the 8 API methods, cascade completeness, typestate of tables reset by Close, reaching-definition check of the watcher's context",
            "Every entry method's disposed check dominating all effects, the right sentinel on its set edge, the cascade on every path of Close, re-checks inside the critical sections that overlap Close, and the one-watcher-per-scope wiring are decided for all paths.",
            "DESIGN.md §4 C13"),
    "C14": ("static analysis: must-pass-through of cancel / table deletions / resets in scope.Close with nil-guard edge facts, insertion-deletion pairing, path-sensitive ownership of the cancel func",
            "Release of everything held for a scope is decided as must-pass-through obligations on every path past the gate, and as an ownership obligation on every path from WithCancel to a return (including failing initializers). Heap reachability and boundedness are not decided.",
            "DESIGN.md §4 C14"),
    "C15": ("static analysis: error-chain lints resolved through go/types (Unwrap exhaustiveness, %w, sentinel use, cause preservation), recover dominance, commit-after-validate dataflow, nil-argument dominance, panic/type-assertion census",
            "Classifiability of failures is decided as repository-wide structural rules over every error construction site and every exit of the resolution path; 'not cached' as the absence of any state recorded before a constructor succeeded.",
            "DESIGN.md §4 C15"),
    "C20": ("static analysis: shape and sibling-agreement checks of NewModule / AddModules / the five module options",
            "Transparency of modules follows from thinness, which is decided exactly: one forward loop over the given builders, nil skipped, first error returned (wrapped exactly once with the module's own name), the caller's slice never written, each option a single forwarded call.",
            "DESIGN.md §4 C20"),
}

PENDING_REASON = "rules for this property are not built yet in this revision of /verif (see DESIGN.md §8); not claimed until they run"

def main():
    props = [json.loads(l) for l in open(os.path.join(HERE, "properties.jsonl"))]
    checks, na = [], []
    for p in props:
        pid = p["id"]
        if pid in CLAIMED:
            tech, text, ref = CLAIMED[pid]
            checks.append({
                "property_id": pid,
                "quick_cmd": f"./check.sh {pid} quick",
                "thorough_cmd": f"./check.sh {pid} thorough",
                "evidence_file": f"/verif/evidence/{pid}.json",
                "replay_cmd_template": f"cat {{path}}; ./bin/godicheck -property {pid} -root /repo -verif /verif",
                "engine": "godicheck",
                "level_claimed": {"category": "other", "text": text, "design_ref": ref},
                "level_note": NOTE,
                "technique": tech,
            })
        else:
            na.append({"property_id": pid, "reason": NA.get(pid, PENDING_REASON)})
    m = {
        "version": 1,
        "setup_cmd": "./setup.sh",
        "hooks": {
            "guard": "verif",
            "enable": "none needed: the checks are static and read /repo's working tree; no instrumentation exists",
            "baseline_off_cmd": "for m in . chi echo fiber gin http; do (cd /repo/$m && GOFLAGS=-mod=mod GOPROXY=off GOWORK=off go test -vet=off -count=1 ./...) || exit 1; done",
            "source_commits": [],
            "add_only": True,
        },
        "engines": [{
            "name": "godicheck",
            "path": "/verif/checker",
            "serves_properties": sorted(CLAIMED),
            "kind_free_text": "repository-specific static analyser (go/packages + go/types + go/cfg dataflow + go/ssa), one rule set per property",
        }],
        "checks": checks,
        "notes": "Exit status of every check: 0 = all rules hold (KNOWN-FINDING lines for recorded defects), 1 = VIOLATION, "
                 "2 = UNDECIDED (anchor not resolvable / unrecognised idiom / loader failure - never a violation claim). "
                 "Fix commits in /repo are listed in known_findings.txt as 'fixed:' entries.",
        "not_applicable": na,
    }
    out = os.path.join(HERE, "MANIFEST.json")
    json.dump(m, open(out, "w"), indent=1)
    open(out, "a").write("\n")
    print("wrote", out, len(checks), "checks,", len(na), "not applicable")

NA = {}

if __name__ == "__main__":
    main()
