#!/usr/bin/env python3
"""Generates /verif/MANIFEST.json from the table below (kept next to the checker so
that the claimed set always matches the rules that actually run)."""
import json, os, subprocess, sys

HERE = os.path.dirname(os.path.dirname(os.path.abspath(__file__)))

NOTE = ("Trusted base: go/types, golang.org/x/tools v0.29.0 (go/packages, go/cfg, go/ssa), the idiom and "
        "guarded-by tables frozen in /verif/checker. Assumes user constructors, reflect and the standard library "
        "behave as documented. The rules are necessary conditions: a discharged rule set does not prove the behaviour.")

# property -> (technique, text, design_ref)
CLAIMED = {

    "C01": ("static analysis: who-may-write/who-may-call over the type-checked program, lifetime-restricted control-flow views (switch or if-chain), condition-fact dominance in eager creation, key-literal completeness, family fan-out agreement",
            "Decides the structural conditions singleton-ness rests on for every path and call site: the table has one writer, the singleton clause of resolution cannot construct, constructors run only from three call sites under the right guards, Build returns only after a checked eager creation over the topological order, the graph sees every dependency, nothing memoises outside setInstance. The function that files a singleton records every output on every success exit (presence means constructed). Two genuine defects (aliases, D1; a nil output among several return values re-runs the constructor, D25) are recorded known findings. Invocation counts and pointer identity are not decided.",
            "DESIGN.md §4 C01"),
    "C02": ("static analysis: who-may-write the scoped cache and isolation of caches, cache-lookup dominance in the scoped clause, must-pass-through of setInstance, initializer-pass counting, atomicity idiom check, lifetime-validation rules",
            "Decides that the cache is filled only by the Scoped clause, is fresh per scope and reached only through the receiver; that construction happens only on a miss of the resolved key and always passes setInstance; that every scope handed out ran its initializers exactly once; and that no long-lived service can capture a scoped one. No error exit of createInstance follows a store (a failed construction leaves no cached sibling). The non-atomic miss/fill pair (D2) is a recorded known finding.",
            "DESIGN.md §4 C02"),
    "C03": ("static analysis: case-region event analysis of the transient clauses, no-store census of resolution entry points, record-confinement (lockset) of invoker/analysis records",
            "Freshness of transients is decided as the absence, on every path, of any cache read or write in the transient clauses, of any memo in the entry points (including group resolution), and of any per-call state in objects shared between invocations.",
            "DESIGN.md §4 C03"),
    "C04": ("static analysis: value-flow of the constructor operand to reflect.Value.Call, identity-carrier checks (Pointer() keys), sibling agreement of the four field walkers and two resolvers, order/loop-shape checks, key-literal completeness",
            "Decides the structural side of wiring fidelity: which function value is called, that analysis (graph edges, registrations) and runtime walks of a struct agree field by field, that dispatch by group/name/plain has one priority, that order never depends on a map, that identities are never truncated, and that no persistent table is keyed by the printed name of a reflect.Type. Fan-out lookups that ignore name/group (D4) are recorded known findings.",
            "DESIGN.md §4 C04"),
    "C05": ("static analysis: must-pass-through of the validation pipeline before provider allocation, loop-completeness of graph filling and of the cycle search, group-link dominance, cause preservation",
            "Exactness of cycle detection needs every descriptor and every dependency in the graph, group placeholders linked before each search, a search that starts everywhere and follows every edge, and a typed error that survives wrapping; these are decided on all paths. Correctness of the DFS on all graphs is value-level and not decided.",
            "DESIGN.md §4 C05"),
    "C06": ("static analysis: group-link dominance, creation-loop shape, dirty-flag must-analysis of graph mutators, fill-before-check ordering of the lifetime table, unconditional validation steps",
            "Order-independence is decided through its structural causes: no verdict is computed while a table is still being filled, every validation step runs on every path, creation follows the sorted slice, caches cannot go stale.",
            "DESIGN.md §4 C06"),
    "C07": ("static analysis: dominance of lifetime validation, exemption census (only Lifetime==Scoped; never Optional, followed through helpers), loop-exit discipline, group-keyed lookup, condition facts at the conflict exit",
            "The transient rule on which transitive soundness rests, the completeness of the check over registrations and dependencies, and the exact trigger of the conflict are decided for every path of the validation code.",
            "DESIGN.md §4 C07"),
    "C08": ("static analysis: dominance of the presence check, condition-fact analysis (with predicate summaries of boolean helpers) of its error exit, ordering of root-scope initializers after eager creation",
            "Both directions are decided structurally: the rejection direction as an unconditional, lifetime-independent membership test by (Type, Key); the acceptance direction as facts that must hold at the error exit (non-optional, non-group, not a built-in).",
            "DESIGN.md §4 C08"),
    "C16": ("static analysis: interprocedural event dataflow (must and may, result-sensitive helper summaries) on the per-request function of each integration with branch-edge facts, sibling comparison across the five, package-state census, source-level framework lemma for fasthttp, record confinement",
            "Every exit path of the per-request function is covered, which no finite request sequence can do: creation failure, middleware failure at any position, normal return, and (through the deferred close or the fasthttp lemma) panics.",
            "DESIGN.md §4 C16"),
    "C17": ("static analysis: three-view write consistency, duplicate-test dominance with the infallible-insert idiom, may-analysis of error exits after registry writes, freshness of containers handed to the provider, lockset on the collection",
            "Exactness and atomicity of the registry are decided as path properties of the registration and removal code; the snapshot as an aliasing property of doBuild.",
            "DESIGN.md §4 C17"),
    "C18": ("static analysis: exact-value check of the built-in switch, resolver-operand check, reaching-definition analysis of the context chain, key-type use census, reserved-test dominance",
            "Scope-correctness of the built-ins and of context linkage is a matter of which expression flows where; that is decided exactly, for all paths, from the source.",
            "DESIGN.md §4 C18"),
    "C19": ("static analysis: interprocedural dirty-flag and degree-recomputation must-analysis over every exported mutator, origin-sensitive rollback check (also through lookup-or-create helpers and undo records), in-place reuse and degree-count checks, lockset on the graph",
            "The three clauses the statement singles out (stale caches, degree recomputation, rollback of a rejected add) plus locking are decided on all paths; agreement of the queries with a reference digraph is value-level and explicitly not decided.",
            "DESIGN.md §4 C19"),
    "C09": ("static analysis: must-hold lockset dataflow over go/cfg with interprocedural entry locksets, "
            "guarded-by table, lock-order graph, typestate of Close-reset tables",
            "Every access to every shared field on every path is checked against its synchronisation discipline; "
            "lock hygiene (order, no user code under a lock, release on all exits) and the nil-after-Close typestate "
            "are decided structurally. This covers all interleavings' necessary conditions, which no finite set of "
            "race-detector runs can; it does not decide races in user code or value-level outcomes.",
            "DESIGN.md §4 C09"),
    "C10": ("static analysis: must-event dataflow over the Close methods' CFGs (gate, drain, cascade), lifetime-restricted control-flow views (switch or if-chain), who-may-call, path-sensitive ownership of cancel, typestate",
            "Decides for every path - not the ones a test drives - that each tracked instance is routed to exactly one owner list, that both Close methods drain a snapshot completely behind a compare-and-swap gate, that failure paths of Build and scope creation dispose what they created, and that nothing else calls Close on container-held instances. Counts of Close calls over histories are not decided.",
            "DESIGN.md §4 C10"),
    "C11": ("static analysis: loop-shape recognition (reverse complete traversal), append-only list discipline, dominance of the child/scope cascade over the owner's disposal loop",
            "Reverse-of-creation order rests on three structural facts that are decided on all paths: one creation-ordered list per owner that is only appended to, disposal loops that run from the last element to the first, and the cascade (children; scopes then root scope) completing before the owner's own loop. The resulting order over all DAGs is not decided.",
            "DESIGN.md §4 C11"),
    "C12": ("static analysis: CAS-gate dominance, value-flow graph from every Close() error to the returned DisposalError (through helpers and accumulator types), result-shape check on branch edges, tracking and cancel-ownership dataflow",
            "Completeness under errors and idempotence are decided as path properties of the two Close methods: the gate dominates every effect, no Close() error causes an exit or is dropped, every phase is on every path past the gate, and the DisposalError is returned exactly on the non-empty edge.",
            "DESIGN.md §4 C12"),
    "C13": ("static analysis: entry-check dominance (R-ENTRY) for the 8 API methods, cascade completeness, typestate of tables reset by Close, reaching-definition check of the watcher's context",
            "Every entry method's disposed check dominating all effects, the right sentinel on its set edge, the cascade on every path of Close, re-checks inside the critical sections that overlap Close, and the one-watcher-per-scope wiring are decided for all paths.",
            "DESIGN.md §4 C13"),
    "C14": ("static analysis: must-pass-through of cancel / table deletions / resets in scope.Close with nil-guard edge facts, insertion-deletion pairing, path-sensitive ownership of the cancel func",
            "Release of everything held for a scope is decided as must-pass-through obligations on every path past the gate, and as an ownership obligation on every path from WithCancel to a return (including failing initializers). Heap reachability and boundedness are not decided.",
            "DESIGN.md §4 C14"),
    "C15": ("static analysis: error-chain lints resolved through go/types (Unwrap exhaustiveness, %w, sentinel use, cause preservation), recover dominance, commit-after-validate dataflow, nil-argument dominance, panic/type-assertion census",
            "Classifiability of failures is decided as repository-wide structural rules over every error construction site and every exit of the resolution path; 'not cached' as the absence of any state recorded before a constructor succeeded.",
            "DESIGN.md §4 C15"),
    "C20": ("static analysis: must/may dataflow on the CFG of the apply loop (nil skip, first failure returns, wrap-once), caller-slice alias check, sibling-agreement of the five module options",
            "Transparency of modules follows from thinness, which is decided exactly: one forward loop over the given builders, nil skipped, first error returned (wrapped exactly once with the module's own name), the caller's slice never written, each option a single forwarded call.",
            "DESIGN.md §4 C20"),
}

PENDING_REASON = "rules for this property are not built yet in this revision of /verif (see DESIGN.md §8); not claimed until they run"

def main():
    props = [json.loads(l) for l in open(os.path.join(HERE, "properties.jsonl"))]
    checks, na = [], []
    for p in props:
        pid = p["id"]
        if pid in CLAIMED:
            tech, text, ref = CLAIMED[pid]
            checks.append({
                "property_id": pid,
                "quick_cmd": f"./check.sh {pid} quick",
                "thorough_cmd": f"./check.sh {pid} thorough",
                "evidence_file": f"/verif/evidence/{pid}.json",
                "replay_cmd_template": f"cat {{path}}; ./bin/godicheck -property {pid} -root /repo -verif /verif",
                "engine": "godicheck",
                "level_claimed": {"category": "other", "text": text, "design_ref": ref},
                "level_note": NOTE,
                "technique": tech,
            })
        else:
            na.append({"property_id": pid, "reason": NA.get(pid, PENDING_REASON)})
    m = {
        "version": 1,
        "setup_cmd": "./setup.sh",
        "hooks": {
            "guard": "verif",
            "enable": "none needed: the checks are static and read /repo's working tree; no instrumentation exists",
            "baseline_off_cmd": "for m in . chi echo fiber gin http; do (cd /repo/$m && GOFLAGS=-mod=mod GOPROXY=off GOWORK=off go test -vet=off -count=1 ./...) || exit 1; done",
            "source_commits": [],
            "add_only": True,
        },
        "engines": [{
            "name": "godicheck",
            "path": "/verif/checker",
            "serves_properties": sorted(CLAIMED),
            "kind_free_text": "repository-specific static analyser (go/packages + go/types + go/cfg dataflow + go/ssa), one rule set per property",
        }],
        "checks": checks,
        "notes": "Exit status of every check: 0 = all rules hold (KNOWN-FINDING lines for recorded defects), 1 = VIOLATION, "
                 "2 = UNDECIDED (anchor not resolvable / unrecognised idiom / loader failure - never a violation claim). "
                 "Fix commits in /repo are listed in known_findings.txt as 'fixed:' entries.",
        "not_applicable": na,
    }
    out = os.path.join(HERE, "MANIFEST.json")
    json.dump(m, open(out, "w"), indent=1)
    open(out, "a").write("\n")
    print("wrote", out, len(checks), "checks,", len(na), "not applicable")

NA = {}

if __name__ == "__main__":
    main()
