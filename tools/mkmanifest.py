#!/usr/bin/env python3
"""Generates /verif/MANIFEST.json from the table below (kept next to the checker so
that the claimed set always matches the rules that actually run)."""
import json, os, subprocess, sys

HERE = os.path.dirname(os.path.dirname(os.path.abspath(__file__)))

NOTE = ("Trusted base: go/types, golang.org/x/tools v0.29.0 (go/packages, go/cfg, go/ssa), the idiom and "
        "guarded-by tables frozen in /verif/checker. Assumes user constructors, reflect and the standard library "
        "behave as documented. The rules are necessary conditions: a discharged rule set does not prove the behaviour.")

# property -> (technique, text, design_ref)
CLAIMED = {
    "C09": ("static analysis: must-hold lockset dataflow over go/cfg with interprocedural entry locksets, "
            "guarded-by table, lock-order graph, typestate of Close-reset tables",
            "Every access to every shared field on every path is checked against its synchronisation discipline; "
            "lock hygiene (order, no user code under a lock, release on all exits) and the nil-after-Close typestate "
            "are decided structurally. This covers all interleavings' necessary conditions, which no finite set of "
            "race-detector runs can; it does not decide races in user code or value-level outcomes.",
            "DESIGN.md §4 C09"),
}

PENDING_REASON = "rules for this property are not built yet in this revision of /verif (see DESIGN.md §8); not claimed until they run"

def main():
    props = [json.loads(l) for l in open(os.path.join(HERE, "properties.jsonl"))]
    checks, na = [], []
    for p in props:
        pid = p["id"]
        if pid in CLAIMED:
            tech, text, ref = CLAIMED[pid]
            checks.append({
                "property_id": pid,
                "quick_cmd": f"./check.sh {pid} quick",
                "thorough_cmd": f"./check.sh {pid} thorough",
                "evidence_file": f"/verif/evidence/{pid}.json",
                "replay_cmd_template": f"cat {{path}}; ./bin/godicheck -property {pid} -root /repo -verif /verif",
                "engine": "godicheck",
                "level_claimed": {"category": "other", "text": text, "design_ref": ref},
                "level_note": NOTE,
                "technique": tech,
            })
        else:
            na.append({"property_id": pid, "reason": NA.get(pid, PENDING_REASON)})
    m = {
        "version": 1,
        "setup_cmd": "./setup.sh",
        "hooks": {
            "guard": "verif",
            "enable": "none needed: the checks are static and read /repo's working tree; no instrumentation exists",
            "baseline_off_cmd": "for m in . chi echo fiber gin http; do (cd /repo/$m && GOFLAGS=-mod=mod GOPROXY=off GOWORK=off go test -vet=off -count=1 ./...) || exit 1; done",
            "source_commits": [],
            "add_only": True,
        },
        "engines": [{
            "name": "godicheck",
            "path": "/verif/checker",
            "serves_properties": sorted(CLAIMED),
            "kind_free_text": "repository-specific static analyser (go/packages + go/types + go/cfg dataflow + go/ssa), one rule set per property",
        }],
        "checks": checks,
        "notes": "Exit status of every check: 0 = all rules hold (KNOWN-FINDING lines for recorded defects), 1 = VIOLATION, "
                 "2 = UNDECIDED (anchor not resolvable / unrecognised idiom / loader failure - never a violation claim). "
                 "Fix commits in /repo are listed in known_findings.txt as 'fixed:' entries.",
        "not_applicable": na,
    }
    out = os.path.join(HERE, "MANIFEST.json")
    json.dump(m, open(out, "w"), indent=1)
    open(out, "a").write("\n")
    print("wrote", out, len(checks), "checks,", len(na), "not applicable")

NA = {}

if __name__ == "__main__":
    main()
