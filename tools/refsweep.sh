#!/bin/bash
# Runs every check on every behaviour-preserving refactoring of refactors/: any alarm is a checker defect.
ALL=C01,C02,C03,C04,C05,C06,C07,C08,C09,C10,C11,C12,C13,C14,C15,C16,C17,C18,C19,C20
cd "$(dirname "$0")/.."
tools/sweep.sh $ALL ${@:-refactors/*/patch.diff} 2>&1 | sed 's#/verif/refactors/##' | python3 -c "
import sys,re
bad_total=0
for l in sys.stdin:
    name=l.split(':')[0]
    bad=re.findall(r'(C\d+)=([12])\[([^\]]*)\](\(undecided:\d+\))?',l)
    if 'PATCH-FAILED' in l: print(name,'PATCH-FAILED'); continue
    if bad: bad_total+=1
    print(name, 'ALL-OK' if not bad else ' '.join(f'{p}={s}[{r}]{u}' for p,s,r,u in bad))
print('refactorings with alarms:',bad_total)
"
