#!/bin/bash
# usage: trypatch.sh <patch.diff> <property|all> [more properties]
# Applies a patch to a scratch copy of /repo (never to /repo), runs the checker on it, removes the copy.
set -u
patch=$(realpath "$1"); shift
bin=${GODICHECK:-/verif/bin/godicheck}
export GOCACHE=${GODICHECK_SWEEP_CACHE:-/tmp/godicheck-sweep-cache}; mkdir -p "$GOCACHE"
d=$(mktemp -d /tmp/trypatch.XXXXXX)
trap 'rm -rf "$d"' EXIT
rsync -a --exclude .git /repo/ "$d/repo/"
if ! (cd "$d/repo" && patch -p1 -s --no-backup-if-mismatch < "$patch"); then echo "PATCH-FAILED $patch"; exit 3; fi
mkdir -p "$d/ev"
rc=0
for p in "$@"; do
  "$bin" -property "$p" -root "$d/repo" -verif "$d/ev" -known /verif/known_findings.txt 2>&1 | sed "s#$d/repo/##g" | grep -v '^property ' | head -${LINES_MAX:-12}
  st=${PIPESTATUS[0]}; [ $st -ne 0 ] && rc=$st
done
echo "exit=$rc"
exit $rc
