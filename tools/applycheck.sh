#!/bin/bash
# usage: applycheck.sh [patch files...]   (default: every corpus patch)
# Confirms that each corpus patch applies to /repo's current tree AND that the patched root module still builds
# (a patch can apply textually and no longer compile after a fix: in /repo changed a line it relies on).
export GODICHECK_SWEEP_CACHE=$(mktemp -d /tmp/godicheck-sweep-cache.XXXXXX); trap 'rm -rf "$GODICHECK_SWEEP_CACHE"' EXIT
cd "$(dirname "$0")/.."
export GOFLAGS=-mod=mod GOPROXY=off GOWORK=off
export GOCACHE=${GODICHECK_SWEEP_CACHE:-/tmp/godicheck-sweep-cache}; mkdir -p "$GOCACHE"
one() {
  f=$1; d=$(mktemp -d /tmp/apc.XXXXXX)
  rsync -a --exclude .git /repo/ "$d/"
  if ! (cd "$d" && patch -p1 -s --no-backup-if-mismatch < "$f" >/dev/null 2>&1); then echo "APPLY-FAIL $f"; rm -rf "$d"; return; fi
  bad=""
  for m in . chi echo fiber gin http; do (cd "$d/$m" && go build ./... >/dev/null 2>&1 && go vet -vettool=/bin/true ./... >/dev/null 2>&1 || true; cd "$d/$m" && go build ./... >/dev/null 2>&1) || bad="$bad $m"; done
  (cd "$d" && go test -count=1 -run '^$' ./... >/dev/null 2>&1) || bad="$bad tests-compile"
  [ -n "$bad" ] && echo "BUILD-FAIL $f:$bad"
  rm -rf "$d"
}
export -f one
files=("$@"); [ ${#files[@]} -eq 0 ] && files=(seeded/*/patch.diff mutants/*.diff refactors/*/patch.diff repairs/*/patch.diff features/*/patch.diff)
printf '%s\n' "${files[@]}" | xargs -P 8 -I{} bash -c 'one "$@"' _ "$(pwd)/{}" | sed "s#$(pwd)/##" | sort
echo "applycheck: ${#files[@]} patches examined"
