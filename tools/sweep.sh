#!/bin/bash
# usage: sweep.sh <props-comma|auto> <patch files...>
# For each patch: apply to a scratch copy of /repo, run the checker for the properties, print one line.
# props=auto: take the property from the patch path (seeded/<Cnn>...) or from its "# Mxx property=Cnn" header.
props=$1; shift
bin=${GODICHECK:-/verif/bin/godicheck}
# every scratch copy compiles the patched module under its own path: in the shared build cache a full
# sweep leaves ~10 MB per run behind (a thorough pass over all properties: >100 GB). The sweeps use a
# cache of their own, which the callers that sweep in bulk (thorough.sh, regress.sh) remove afterwards.
export GOCACHE=${GODICHECK_SWEEP_CACHE:-/tmp/godicheck-sweep-cache}
mkdir -p "$GOCACHE"
run_one() {
  patch=$(realpath "$1"); props=$2; bin=$3
  if [ "$props" = auto ]; then
    props=$(head -1 "$patch" | sed -n 's/.*property=\(C[0-9]*\).*/\1/p')
    [ -z "$props" ] && props=$(echo "$patch" | grep -o 'C[0-9][0-9]' | head -1)
  fi
  d=$(mktemp -d /tmp/sweep.XXXXXX)
  rsync -a --exclude .git /repo/ "$d/repo/"
  if ! (cd "$d/repo" && patch -p1 -s --no-backup-if-mismatch < "$patch" >/dev/null 2>&1); then echo "$patch: PATCH-FAILED"; rm -rf "$d"; return; fi
  mkdir -p "$d/ev"
  res=""
  for p in ${props//,/ }; do
    out=$("$bin" -property "$p" -root "$d/repo" -verif "$d/ev" -known /verif/known_findings.txt 2>&1); st=$?
    rules=$(echo "$out" | grep -o 'violation: [A-Z][^ ]*' | sed 's/violation: //' | sort -u | tr '\n' ',' )
    und=$(echo "$out" | grep -c '^UNDECIDED')
    res="$res $p=$st[${rules%,}]"; [ "$und" != 0 ] && res="$res(undecided:$und)"
  done
  echo "$patch:$res"
  rm -rf "$d"
}
export -f run_one
printf '%s\n' "$@" | xargs -P 8 -I{} bash -c 'run_one "$@"' _ {} "$props" "$bin" | sort
