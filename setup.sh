#!/bin/bash
# Builds the static checker from files on disk only (offline).
set -euo pipefail
cd "$(dirname "$0")/checker"
unset GOSUMDB GOTOOLCHAIN GOWORK || true
export GOFLAGS=-mod=mod GOPROXY=off GOWORK=off
mkdir -p ../bin ../evidence
go build -o ../bin/godicheck .
echo "built $(cd .. && pwd)/bin/godicheck"
